package rules

import (
	"fmt"
	"go/ast"
	"go/token"
	"sort"
	"strings"

	"bxhlint/core"

	"golang.org/x/tools/go/packages"
	"golang.org/x/tools/go/ssa"
)

func init() { Props["C16"] = C16 }

// methodTrueEdges: edges on which a bool method named `name` returned true.
func methodTrueEdges(fn *ssa.Function, name string) core.EdgeSet {
	return condEdges(fn, func(f core.Fact, ifi *ssa.If) (bool, int) {
		if f.Kind != core.FBool {
			return false, 0
		}
		if call, ok := f.Subject.(*ssa.Call); ok {
			if o := core.CalleeObj(call); o != nil && o.Name() == name {
				return true, holdsEdge(f)
			}
		}
		return false, 0
	})
}

// fsmTable is one governance FSM found in source.
type fsmTable struct {
	pkg   *packages.Package
	fn    string
	pos   string
	edges []core.FSMEdge
}

func findFSMTables(c *Ctx) []fsmTable {
	ev := &core.Evaluator{P: c.P}
	var out []fsmTable
	var paths []string
	for path := range c.P.All {
		if strings.HasPrefix(path, "github.com/meshplus/bitxhub-core/") || core.InModulePath(path) {
			paths = append(paths, path)
		}
	}
	sort.Strings(paths)
	for _, path := range paths {
		pk := c.P.All[path]
		if core.IsAuxPkg(path) || pk.TypesInfo == nil {
			continue
		}
		for _, f := range pk.Syntax {
			for _, d := range f.Decls {
				fd, ok := d.(*ast.FuncDecl)
				if !ok || fd.Body == nil {
					continue
				}
				edges, problems := ev.FSMEvents(pk, fd.Body)
				if len(edges) == 0 {
					continue
				}
				for _, p := range problems {
					// a dynamic Dst is reported per edge, other problems are undecided
					c.R.Unknown("R16.2", "fsm table "+path+"."+fd.Name.Name+": "+p, c.P.Pos(fd.Pos()), p)
				}
				out = append(out, fsmTable{pkg: pk, fn: fd.Name.Name, pos: c.P.Pos(fd.Pos()), edges: edges})
			}
		}
	}
	return out
}

// C16: only available, permitted services interchange; objects obey their lifecycle.
func C16(c *Ctx) {
	r := c.R
	r.Rule("R16.1", "gating: in checkIBTP a request from a local source is accepted only across the no-error edge of checkSourceAvailability; the target's availability error becomes the isFailed flag of beginTransaction; checkServiceAvailability accepts only an existing service whose IsAvailable() is true; checkTargetAvailability accepts a local destination only across getServiceByID ok, IsAvailable() true and CheckPermission(source) true.")
	r.Rule("R16.10", "no operation on an object that is being logged out: the pre-check tables of the repository's governance objects (roleStateMap, dappStateMap, strategyStateMap: operation -> statuses from which it may be submitted) admit no operation from logouting or forbidden. All operations share the FSM events approve / reject; an operation accepted while a logout proposal is open moves the object to its own pending status, the logout's approval is then taken for that operation's approval and ends in available instead of forbidden.")
	r.Rule("R16.2", "lifecycle tables: every governance FSM literal (role, dapp, proposal strategy in the repository; appchain, service, rule, node in the pinned bitxhub-core) has no transition whose source is GovernanceForbidden, dynamic destinations only on reject, an approved logout ends in forbidden, and no transition takes a forbidden object to anything but forbidden/unavailable (pre-check tables wider than the FSM are reported as information).")
	r.Rule("R16.4", "cascade: in AppchainManager.Manage, on the approved branch, event freeze reaches the cross-invoke PauseChainService, activate reaches UnPauseChainService, logout reaches ClearChainService and ClearRule before any successful return, each with its result tested; the per-service loops of the service manager call the per-service operation on every iteration.")
	r.Rule("R16.5", "service cache coherence: the executor's service cache (consulted before ledger state) is fed from SERVICE events only across a receipt-success edge; each event caches a record allocated in its own loop iteration; rollbackBlocks resets it on every path that rolled the ledger back; every service-manager entry that changes a service's status posts the SERVICE event before returning success.")
	r.Rule("R16.7", "no verdict is dropped: for every checkTargetAvailability call of checkIBTP, at each accepting return that the call can reach, the returned target error has the call's error result among its origins (through the assignments and phis in between); a verdict that is only logged or lands in a shadowing variable lets a request to an unavailable or forbidden service through as a normal transaction.")
	r.NotDecided = append(r.NotDecided, "composed behaviour over lifecycle histories; status predicates of bitxhub-core (IsAvailable() vs. == available, seed C16-r9); semantics of the looplab FSM engine (trusted)")

	// ---- R16.1
	check := c.fn("R16.1", imPrefix+"checkIBTP")
	handle := c.fn("R16.1", imPrefix+"HandleIBTP")
	csa := c.fn("R16.1", imPrefix+"checkSourceAvailability")
	cta := c.fn("R16.1", imPrefix+"checkTargetAvailability")
	cserv := c.fn("R16.1", imPrefix+"checkServiceAvailability")
	begin := c.fn("R16.1", imPrefix+"beginTransaction")
	if check != nil && csa != nil && cta != nil && handle != nil && cserv != nil && begin != nil {
		// local-source request branch: the target check lies behind checkSourceAvailability == nil.
		// checkIBTP may be split into helpers per category (extract method): the rule follows the code - sites are
		// looked for in checkIBTP and the InterchainManager helpers it calls (three levels), and an obligation that is
		// not met inside a helper is lifted to the helper's call sites.
		var regionFns []*ssa.Function
		callSites := map[*ssa.Function][]ssa.CallInstruction{} // helper -> its call sites inside the region
		for _, rf := range c.regionOf(check, 3) {
			if rf.fn.Parent() == nil && (rf.fn == check || c.isInterchainFn(rf.fn)) {
				regionFns = append(regionFns, rf.fn)
			}
		}
		inRegion := map[*ssa.Function]bool{}
		for _, f := range regionFns {
			inRegion[f] = true
		}
		for _, f := range regionFns {
			for _, call := range core.Calls(f) {
				if g := core.StaticCallee(call); g != nil && inRegion[g] && g != f {
					callSites[g] = append(callSites[g], call)
				}
			}
		}
		// isSrc(f, v): v is (derived from) the chain service parsed from ibtp.From - directly, or a parameter of a
		// helper that every call site fills with it
		var isSrc func(f *ssa.Function, v ssa.Value, d int) bool
		isSrc = func(f *ssa.Function, v ssa.Value, d int) bool {
			if core.Mentions(v, func(w ssa.Value) bool {
				cc, ok := w.(*ssa.Call)
				return ok && strings.HasSuffix(core.CalleeName(cc), "parseChainService") && len(cc.Call.Args) > 0 && core.Mentions(cc.Call.Args[len(cc.Call.Args)-1], fieldNamed("From"))
			}) {
				return true
			}
			if d > 3 || len(callSites[f]) == 0 {
				return false
			}
			for pi, p := range f.Params {
				pp := p
				if !core.Mentions(v, func(w ssa.Value) bool { return w == ssa.Value(pp) }) {
					continue
				}
				all := true
				for _, cs := range callSites[f] {
					if pi >= len(cs.Common().Args) || !isSrc(cs.Parent(), cs.Common().Args[pi], d+1) {
						all = false
					}
				}
				if all {
					return true
				}
			}
			return false
		}
		nSrcTests := 0
		edgesOf := func(f *ssa.Function) core.EdgeSet {
			var gs []core.GuardSite
			for _, call := range core.Calls(f) {
				if cl, ok := call.(*ssa.Call); ok && core.StaticCallee(call) == csa {
					gs = append(gs, core.GuardSite{Call: cl, Conv: core.ConvErrNil, Idx: -1})
				}
			}
			es := core.EdgeSet{}
			for b, m := range core.SuccessEdges(f, gs) {
				for i := range m {
					es.Add(b, i)
				}
			}
			// paths on which the source is remote (false edge of srcChainService.IsLocal) need no source check
			srcRemote := condEdges(f, func(fc core.Fact, ifi *ssa.If) (bool, int) {
				if fc.Kind == core.FBool && fc.Field == "IsLocal" && isSrc(f, fc.Subject, 0) {
					return true, 1 - holdsEdge(fc)
				}
				return false, 0
			})
			nSrcTests += srcRemote.Len()
			es.Merge(srcRemote)
			return es
		}
		edgeMemo := map[*ssa.Function]core.EdgeSet{}
		esOf := func(f *ssa.Function) core.EdgeSet {
			if e, ok := edgeMemo[f]; ok {
				return e
			}
			e := edgesOf(f)
			edgeMemo[f] = e
			return e
		}
		// guardedUp: instruction `in` of f executes only after the source check - inside f, or at every call site of f
		var guardedUp func(f *ssa.Function, in ssa.Instruction, d int) (bool, string)
		guardedUp = func(f *ssa.Function, in ssa.Instruction, d int) (bool, string) {
			es := esOf(f)
			rs := core.Reach([]core.Point{core.EntryOf(f)}, nil, core.CutOf(es))
			if es.Len() > 0 && !rs.Has(in) {
				return true, ""
			}
			if f == check || d > 3 || len(callSites[f]) == 0 {
				return false, fmt.Sprintf("%s at %s is reachable in %s without crossing checkSourceAvailability == nil (or source not local); path (lines): %s", "the target check", c.P.Pos(in.Pos()), core.FnName(f), rs.Witness(c.P, in))
			}
			for _, cs := range callSites[f] {
				if ok, why := guardedUp(cs.Parent(), cs, d+1); !ok {
					return false, why
				}
			}
			return true, ""
		}
		nTarget := 0
		type ctaSite struct {
			f    *ssa.Function
			call ssa.CallInstruction
		}
		var ctaSites []ctaSite
		for _, f := range regionFns {
			for _, call := range core.Calls(f) {
				if core.StaticCallee(call) == cta {
					ctaSites = append(ctaSites, ctaSite{f, call})
				}
			}
		}
		for _, st := range ctaSites {
			nTarget++
			ok, why := guardedUp(st.f, st.call, 0)
			key := "checkIBTP: acceptance of a request behind checkSourceAvailability == nil (or source not local)"
			if nTarget > 1 {
				key += fmt.Sprintf("#%d", nTarget)
			}
			r.Check(ok, "R16.1", key, c.P.Pos(st.call.Pos()), "the target check is only reachable across the source check (in its function or at every call site of it)", why)
		}
		for _, f := range regionFns {
			esOf(f)
		}
		r.Floor("R16.1", "tests of the source's IsLocal flag in checkIBTP", nSrcTests, 1)
		r.Floor("R16.1", "target checks in checkIBTP", nTarget, 1)
		// R16.7: every verdict of checkTargetAvailability is the target error checkIBTP returns
		nV := 0
		// carried(f, after, v, d): at every accepting return of f reachable after `after`, v is among the origins of a
		// result; in checkIBTP that result is the target error (index 2); in a helper the result position is followed
		// to every call site
		var carried func(f *ssa.Function, after ssa.Instruction, v ssa.Value, d int) (bool, string, int)
		carried = func(f *ssa.Function, after ssa.Instruction, v ssa.Value, d int) (bool, string, int) {
			reach := core.Reach([]core.Point{core.After(after)}, nil, nil)
			errIdx := f.Signature.Results().Len() - 1
			pos := -1
			nRet := 0
			for _, ret := range core.Returns(f) {
				if !reach.Has(ret) || len(ret.Results) <= errIdx || !core.MayBeSuccess(f, ret, errIdx, core.ConvErrNil) {
					continue
				}
				// a return taken only where the returned error variable was tested non-nil is not an accepting one
				ev := ret.Results[errIdx]
				nonNil := condEdges(f, func(fc core.Fact, ifi *ssa.If) (bool, int) {
					if fc.Kind == core.FNil && sameValue(fc.Subject, ev) {
						return true, 1 - holdsEdge(fc)
					}
					return false, 0
				})
				if nonNil.Len() > 0 {
					// every way to the return crosses such an edge?
					without := core.Reach([]core.Point{core.EntryOf(f)}, nil, core.CutOf(nonNil))
					if !without.Has(ret) {
						continue
					}
				}
				nRet++
				found := -1
				for k := range ret.Results {
					if k == errIdx {
						continue
					}
					for _, o := range core.RetOrigins(ret.Results[k]) {
						if core.Strip(o.V) == v {
							found = k
						}
					}
				}
				if found < 0 || (pos >= 0 && found != pos) {
					return false, c.P.Pos(ret.Pos()), nRet
				}
				pos = found
			}
			if nRet == 0 {
				return false, c.P.Pos(f.Pos()), 0
			}
			if f == check {
				return pos == 2, c.P.Pos(f.Pos()), nRet
			}
			if d > 3 || len(callSites[f]) == 0 {
				return false, c.P.Pos(f.Pos()), nRet
			}
			total := 0
			for _, cs := range callSites[f] {
				var ex ssa.Value
				if cv := cs.Value(); cv != nil && cv.Referrers() != nil {
					for _, ref := range *cv.Referrers() {
						if e, ok := ref.(*ssa.Extract); ok && e.Index == pos {
							ex = e
						}
					}
				}
				if ex == nil {
					return false, c.P.Pos(cs.Pos()), nRet
				}
				ok, where, n := carried(cs.Parent(), cs, ex, d+1)
				if !ok {
					return false, where, n
				}
				total += n
			}
			return true, "", total
		}
		for _, st := range ctaSites {
			call := st.call
			if call.Value() == nil {
				continue
			}
			nV++
			var verdict ssa.Value
			for _, ref := range *call.Value().Referrers() {
				if ex, ok := ref.(*ssa.Extract); ok && ex.Index == 1 {
					verdict = ex
				}
			}
			okV, bad, nRet := false, c.P.Pos(call.Pos()), 0
			if verdict != nil {
				okV, bad, nRet = carried(st.f, call, verdict, 0)
			}
			key := fmt.Sprintf("checkIBTP: verdict of checkTargetAvailability #%d is the returned target error", nV)
			r.Check(okV && verdict != nil && nRet > 0, "R16.7", key, c.P.Pos(call.Pos()), fmt.Sprintf("the error result of the call is among the origins of the target error at %d accepting return(s)", nRet),
				"the availability / permission verdict of this call does not reach the target error that checkIBTP returns at "+bad+" (discarded, or assigned to a shadowing variable): HandleIBTP sees no target error, so the request to an unavailable or forbidden service begins as a normal transaction instead of being failed")
		}
		r.Floor("R16.7", "checkTargetAvailability calls in checkIBTP", nV, 1)

		// isFailed = targetErr != nil
		okFlag := false
		for _, call := range core.Calls(handle) {
			if core.StaticCallee(call) != begin {
				continue
			}
			flag := call.Common().Args[2]
			if bo, ok := flag.(*ssa.BinOp); ok {
				if ex, ok := core.Strip(bo.X).(*ssa.Extract); ok && ex.Index == 2 {
					if cl, ok := ex.Tuple.(*ssa.Call); ok && core.StaticCallee(cl) == check && core.IsNilConst(bo.Y) && bo.Op.String() == "!=" {
						okFlag = true
					}
				}
			}
		}
		r.Check(okFlag, "R16.1", "HandleIBTP: begin-failed flag is the target availability error", c.P.Pos(handle.Pos()), "beginTransaction(ibtp, targetErr != nil)", "the destination's unavailability is not what marks the transaction begin-failed")
		// checkServiceAvailability
		{
			es := methodTrueEdges(cserv, "IsAvailable")
			cut := core.CutOf(es)
			rs := core.Reach([]core.Point{core.EntryOf(cserv)}, nil, cut)
			n := 0
			for _, ret := range core.Returns(cserv) {
				if !core.MayBeSuccess(cserv, ret, 1, core.ConvErrNil) {
					continue
				}
				n++
				r.Check(!rs.Has(ret), "R16.1", "checkServiceAvailability: accepts only available services", c.P.Pos(ret.Pos()), "nil error only across service.IsAvailable() == true", "a service that is not available passes the source availability check")
			}
			r.Floor("R16.1", "accepting returns of checkServiceAvailability", n, 1)
		}
		// checkTargetAvailability: reading dstService.Ordered marks acceptance of a local destination
		{
			isAccept := func(in ssa.Instruction) bool {
				u, ok := in.(*ssa.UnOp)
				if !ok {
					return false
				}
				_, f, _, ok2 := core.FieldOf(u)
				return ok2 && f == "Ordered"
			}
			n := c.behindEdges("R16.1", "checkTargetAvailability", cta, methodTrueEdges(cta, "IsAvailable"), isAccept, "dstService.IsAvailable() == true", "acceptance of a local destination")
			c.behindEdges("R16.1", "checkTargetAvailability", cta, methodTrueEdges(cta, "CheckPermission"), isAccept, "dstService.CheckPermission(source) == true", "acceptance of a local destination")
			var gs []core.GuardSite
			for _, call := range core.Calls(cta) {
				if cl, ok := call.(*ssa.Call); ok && strings.HasSuffix(core.CalleeName(call), ".getServiceByID") {
					gs = append(gs, core.GuardSite{Call: cl, Conv: core.ConvErrNil, Idx: 1})
				}
			}
			es := core.EdgeSet{}
			for b, m := range core.SuccessEdges(cta, gs) {
				for i := range m {
					es.Add(b, i)
				}
			}
			c.behindEdges("R16.1", "checkTargetAvailability", cta, es, isAccept, "destination service exists (getServiceByID ok)", "acceptance of a local destination")
			r.Floor("R16.1", "local-destination acceptance points", n, 1)
		}
	}

	// ---- R16.2
	ev := &core.Evaluator{P: c.P}
	tabs := findFSMTables(c)
	nGov := 0
	nPre := 0
	for _, t := range tabs {
		// governance FSMs only: those mentioning the status "forbidden" or "available"
		isGov := false
		for _, e := range t.edges {
			if e.Dst == "available" || e.Dst == "forbidden" || e.Dst == "frozen" {
				isGov = true
			}
		}
		if !isGov {
			continue
		}
		nGov++
		name := core.Short(t.pkg.PkgPath) + "." + t.fn
		sources := map[string]map[string]bool{}
		badForbidden := ""
		for _, e := range t.edges {
			if sources[e.Event] == nil {
				sources[e.Event] = map[string]bool{}
			}
			for _, s := range e.Src {
				sources[e.Event][s] = true
				// a logged-out object may only stay forbidden or be cleared to unavailable
				if s == "forbidden" && (e.DynDst || (e.Dst != "forbidden" && e.Dst != "unavailable")) {
					badForbidden = fmt.Sprintf("forbidden --%s--> %s", e.Event, e.Dst)
				}
			}
			if e.DynDst && e.Event != "reject" {
				r.Note("R16.2", name+": dynamic destination on "+e.Event, t.pos, "destination restored from lastStatus")
			}
		}
		r.Check(badForbidden == "", "R16.2", name+": forbidden leads nowhere usable", t.pos, fmt.Sprintf("%d transitions, none takes a forbidden object to a usable status", len(t.edges)), "a logged-out (forbidden) object can become usable again: "+badForbidden)
		// the logout approval must end in forbidden
		okLogout := true
		hasLogout := false
		for _, e := range t.edges {
			for _, s := range e.Src {
				if s == "logouting" && e.Event == "approve" {
					hasLogout = true
					if e.Dst != "forbidden" {
						okLogout = false
					}
				}
			}
		}
		if hasLogout {
			r.Check(okLogout, "R16.2", name+": approved logout ends in forbidden", t.pos, "logouting --approve--> forbidden", "an approved logout does not make the object forbidden")
		}
		// pre-check tables of the same package
		for _, vn := range core.PackageVarsWithSuffix(t.pkg, "StateMap") {
			pre, ok := ev.MapOfLists(t.pkg, vn)
			if !ok {
				continue
			}
			// match the table to this FSM: most of its events must exist in the FSM
			hit := 0
			for e := range pre {
				if sources[e] != nil {
					hit++
				}
			}
			if hit*2 < len(pre) {
				continue
			}
			var evs []string
			for e := range pre {
				evs = append(evs, e)
			}
			sort.Strings(evs)
			for _, e := range evs {
				if sources[e] == nil {
					r.Note("R16.2", name+": "+vn+"["+e+"] not fired through the FSM", t.pos, "pre-check entry without FSM event")
					continue
				}
				var missing []string
				for _, s := range pre[e] {
					if !sources[e][s] {
						missing = append(missing, s)
					}
				}
				// information only: a pre-check wider than the FSM makes the operation fail in the FSM, it does not leave the state machine
				if len(missing) > 0 {
					r.Note("R16.2", name+": "+vn+"["+e+"] wider than the FSM", t.pos, fmt.Sprintf("pre-check admits %v for %s, the FSM refuses it", missing, e))
				}
			}
		}
	}
	r.Floor("R16.2", "governance FSM tables", nGov, 6)
	// ---- R16.10: nothing is submitted on an object whose logout is pending or done (once per table)
	seenTab := map[string]bool{}
	for _, t := range tabs {
		if !strings.HasPrefix(t.pkg.PkgPath, core.Module+"/") {
			continue
		}
		for _, vn := range core.PackageVarsWithSuffix(t.pkg, "StateMap") {
			if seenTab[t.pkg.PkgPath+"."+vn] {
				continue
			}
			seenTab[t.pkg.PkgPath+"."+vn] = true
			pre, ok := ev.MapOfLists(t.pkg, vn)
			if !ok {
				r.Unknown("R16.10", core.Short(t.pkg.PkgPath)+"."+vn, "", "the pre-check table could not be evaluated from its literal")
				continue
			}
			nPre++
			vpos := ""
			if o := t.pkg.Types.Scope().Lookup(vn); o != nil {
				vpos = c.P.Pos(o.Pos())
			}
			var evs []string
			for e := range pre {
				evs = append(evs, e)
			}
			sort.Strings(evs)
			badPre := ""
			for _, e := range evs {
				for _, st := range pre[e] {
					if st == "logouting" || st == "forbidden" {
						badPre += fmt.Sprintf(" %s admits %s;", e, st)
					}
				}
			}
			r.Check(badPre == "", "R16.10", core.Short(t.pkg.PkgPath)+"."+vn+" admits no operation on a logouting / forbidden object", vpos, fmt.Sprintf("%d operations, none admitted from logouting or forbidden", len(evs)),
				"the pre-check table lets an operation be submitted on an object whose logout is being voted (or that is logged out):"+badPre+" the object moves to that operation's pending status while the logout proposal stays open, and the approval of the logout is then consumed as the approval of the other operation (<pending> --approve--> available): the logged-out object is usable again")
		}
	}
	r.Floor("R16.10", "pre-check tables of the repository's own governance objects", nPre, 2)

	// ---- R16.4
	if am := c.fn("R16.4", "internal/executor/contracts.(*AppchainManager).Manage"); am != nil {
		m := c.Contracts()
		edgeOf := map[*ssa.Call]*core.Edge{}
		for _, e := range m.bvm.Edges {
			edgeOf[e.Site] = e
		}
		var eventP, resultP *ssa.Parameter
		for _, p := range am.Params {
			switch p.Name() {
			case "eventTyp":
				eventP = p
			case "proposalResult":
				resultP = p
			}
		}
		var factIsEvent func(f core.Fact) bool
		var isEvent func(v ssa.Value) bool
		appr := constOfPkg(c, "APPROVED")
		apprEdges := condEdges(am, func(f core.Fact, ifi *ssa.If) (bool, int) {
			if f.Kind == core.FEqConst && f.Const == appr && resultP != nil && core.Strip(f.Subject) == ssa.Value(resultP) {
				return true, holdsEdge(f)
			}
			return false, 0
		})
		notApprovedAm := core.Reach([]core.Point{core.EntryOf(am)}, nil, core.CutOf(apprEdges))
		// factIsEvent: a comparison fact whose subject is the event type (condition facts report `x.f == c` as subject
		// x, field f)
		factIsEvent = func(f core.Fact) bool {
			if f.Field == "" {
				return isEvent(f.Subject)
			}
			vals, ok := core.CtxFieldValuesByName(f.Subject, f.Field)
			if !ok || len(vals) == 0 || eventP == nil {
				return false
			}
			for _, cv := range vals {
				if core.Strip(cv) != ssa.Value(eventP) {
					return false
				}
			}
			return true
		}
		// the approved branch may have been split out: a helper called only on the approved branch that receives the
		// event type is then the home of the per-event cascade
		home, homeEvent := am, eventP
		homeConv := core.ConvRespOk
		inNotApproved := func(in ssa.Instruction) bool { return notApprovedAm.Has(in) }
		// isEvent: v is the event type as the home function sees it: its parameter, or the field of a context struct
		// into which Manage stored its own eventTyp parameter
		isEvent = func(v ssa.Value) bool {
			v = core.Strip(v)
			if homeEvent != nil && v == ssa.Value(homeEvent) {
				return true
			}
			if u, ok := v.(*ssa.UnOp); ok {
				if fa, ok := u.X.(*ssa.FieldAddr); ok {
					if vals, ok := core.CtxFieldValues(fa); ok && len(vals) > 0 {
						for _, cv := range vals {
							if eventP == nil || core.Strip(cv) != ssa.Value(eventP) {
								return false
							}
						}
						return true
					}
				}
			}
			return false
		}
		for _, call := range core.Calls(am) {
			h := core.StaticCallee(call)
			if h == nil || h == am || len(h.Blocks) == 0 || core.PkgOf(h) != core.PkgOf(am) || notApprovedAm.Has(call) || eventP == nil {
				continue
			}
			hasEdge := false
			for _, hc := range core.Calls(h) {
				if cl, ok := hc.(*ssa.Call); ok && edgeOf[cl] != nil {
					hasEdge = true
				}
			}
			for ai, a := range call.Common().Args {
				if hasEdge && ai < len(h.Params) && core.Strip(a) == ssa.Value(eventP) {
					home, homeEvent = h, h.Params[ai]
					inNotApproved = func(in ssa.Instruction) bool { return false }
				}
			}
			if home == am && hasEdge {
				// the event type travels in a context struct the helper receives (parameter object)
				usesCtxEvent := false
				for _, b := range h.Blocks {
					if ifi := core.IfOf(b); ifi != nil {
						if f := core.CondFact(ifi.Cond); f.Kind == core.FEqConst && f.Subject != nil && factIsEvent(f) {
							usesCtxEvent = true
						}
					}
				}
				if usesCtxEvent {
					home, homeEvent = h, nil
					inNotApproved = func(in ssa.Instruction) bool { return false }
				}
			}
			if home == h {
				// how Manage reads the helper's result: a *Response that is nil when nothing went wrong, or Ok
				if cl, ok := call.(*ssa.Call); ok && h.Signature.Results().Len() == 1 {
					if len(core.SuccessEdges(am, []core.GuardSite{{Call: cl, Conv: core.ConvRespOk, Idx: -1}})) == 0 {
						homeConv = core.ConvErrNil
					}
				}
			}
		}
		want := []struct{ event, method string }{{"freeze", "PauseChainService"}, {"activate", "UnPauseChainService"}, {"logout", "ClearChainService"}, {"logout", "ClearRule"}}
		for _, w := range want {
			key := fmt.Sprintf("AppchainManager.Manage: approved %s -> %s", w.event, w.method)
			var target *ssa.Call
			for _, call := range core.Calls(home) {
				if cl, ok := call.(*ssa.Call); ok {
					if ed := edgeOf[cl]; ed != nil && ed.Method == w.method && !inNotApproved(cl) {
						target = cl
					}
				}
			}
			if target == nil {
				r.Bad("R16.4", key, c.P.Pos(am.Pos()), "no cross-invoke of "+w.method+" on the approved branch")
				continue
			}
			// start: the true edge of eventTyp == w.event on the approved branch
			found := false
			ok := true
			for _, b := range home.Blocks {
				ifi := core.IfOf(b)
				if ifi == nil || inNotApproved(ifi) {
					continue
				}
				f := core.CondFact(ifi.Cond)
				if f.Kind != core.FEqConst || f.Const != w.event || f.Subject == nil || !factIsEvent(f) {
					continue
				}
				found = true
				rs := core.Reach([]core.Point{{B: b.Succs[holdsEdge(f)], Idx: 0}}, func(in ssa.Instruction) bool { return in == ssa.Instruction(target) }, nil)
				for _, ret := range core.Returns(home) {
					succ := core.MayBeSuccess(home, ret, 0, homeConv)
					if succ && homeConv == core.ConvErrNil && !core.IsNilConst(ret.Results[0]) {
						// a *Response handed back as "something went wrong": a response returned behind its own !Ok test
						// is not the nil that means success
						succ = core.MayBeSuccess(home, ret, 0, core.ConvRespOk)
					}
					if rs.Has(ret) && succ {
						ok = false
					}
				}
			}
			tested := core.SuccessEdges(home, []core.GuardSite{{Call: target, Conv: core.ConvRespOk, Idx: -1}})
			r.Check(found && ok && len(tested) > 0, "R16.4", key, c.P.Pos(target.Pos()), "every successful path of the approved "+w.event+" branch passes the cross-invoke, whose result is tested",
				"an approved "+w.event+" of an appchain can complete without "+w.method+" (or without testing its result): the chain's services/rules stay usable")
		}
	}
	for _, spec := range []struct{ fn, callee string }{
		{"internal/executor/contracts.(*ServiceManager).pauseOrClearChainService", "pauseService"},
		{"internal/executor/contracts.(*ServiceManager).pauseOrClearChainService", "clearService"},
		{"internal/executor/contracts.(*ServiceManager).UnPauseChainService", "unPauseService"},
	} {
		fn := c.fn("R16.4", spec.fn)
		if fn == nil {
			continue
		}
		for _, in := range sites(fn, func(in ssa.Instruction) bool {
			call, ok := in.(ssa.CallInstruction)
			return ok && strings.HasSuffix(core.CalleeName(call), "."+spec.callee)
		}) {
			// a return of success inside the loop before the operation would end the cascade early
			inLoop := core.InLoop(in)
			r.Check(inLoop, "R16.4", shortFnName(spec.fn)+": "+spec.callee+" applied per service", c.P.Pos(in.Pos()), "called inside the loop over the chain's service ids", "the per-service operation is not inside the loop over the chain's services")
		}
	}

	// ---- R16.8
	r.Rule("R16.8", "status change and service cascade go together: ClearChainService moves only paused services to forbidden, so every AppchainManager entry that submits a change and pauses the chain's services at all (Manage, which applies concluded proposals, is decided by R16.4) does so on every successful path that has changed the appchain's status (ChangeStatus / basicGovernance): no success return is reachable from the status change without passing the PauseChainService cross-invoke.")
	{
		m := c.Contracts()
		edgeOf := map[*ssa.Call]*core.Edge{}
		for _, e := range m.bvm.Edges {
			edgeOf[e.Site] = e
		}
		n8 := 0
		for _, ct := range m.bvm.Contracts {
			if ct.Name != "AppchainManager" {
				continue
			}
			for _, e := range ct.Entries {
				if !e.Own || e.Fn == nil || len(e.Fn.Blocks) == 0 || e.Fn.Name() == "Manage" {
					continue // Manage applies a concluded proposal: its event-specific cascades are decided by R16.4
				}
				fn := e.Fn
				isPause := func(in ssa.Instruction) bool {
					cl, ok := in.(*ssa.Call)
					return ok && edgeOf[cl] != nil && edgeOf[cl].Method == "PauseChainService"
				}
				if len(sites(fn, isPause)) == 0 {
					continue
				}
				isChange := func(in ssa.Instruction) bool {
					call, ok := in.(ssa.CallInstruction)
					if !ok || core.CalleeObj(call) == nil {
						return false
					}
					n := core.CalleeObj(call).Name()
					return n == "ChangeStatus" || n == "basicGovernance"
				}
				for i, ch := range sites(fn, isChange) {
					n8++
					rs := core.Reach([]core.Point{core.After(ch)}, isPause, nil)
					bad := ""
					for _, ret := range core.Returns(fn) {
						if rs.Has(ret) && core.MayBeSuccess(fn, ret, 0, core.ConvRespOk) {
							bad = c.P.Pos(ret.Pos())
						}
					}
					r.Check(bad == "", "R16.8", fmt.Sprintf("%s: status change #%d is followed by PauseChainService on every successful path", e.Key(), i+1), c.P.Pos(ch.Pos()), "no success return reachable from the status change without the cross-invoke",
						"the appchain's status is changed and the entry returns success at "+bad+" without pausing the chain's services: services that stay available are not moved to forbidden by the later ClearChainService (it only clears paused services), so a logged-out or frozen chain keeps interchanging")
				}
			}
		}
		r.Floor("R16.8", "status changes in entries that cascade to the services", n8, 2)
	}

	// ---- R16.9
	r.Rule("R16.11", "a pause covers only what its un-pause restores: un-pausing always ends in available (the service FSM has one exit from pause), so ServiceManager.pauseService moves a service to pause only behind a test of the service's status that excludes frozen (a status comparison with frozen / available on the loaded service) - otherwise a service frozen by governance comes back available through any pause / un-pause cycle of its appchain (freeze + activate of the chain, an update or a withdrawn logout of the chain) without an activate proposal of its own, and interchanges again.")
	c.c16PauseScope()
	c.c16UpdateKeepsFreeze()
	c.c16PreEventStatus()
	r.Rule("R16.9", "services resume only with their appchain: an UnPauseChainService cross-invoke of the appchain manager lies on the approved branch of Manage (approved activate / update end in available by the FSM table), or behind a comparison of the status the appchain returns to (lastStatus / a loaded status) with available or freezing - the statuses in which an appchain's services run; an unconditional un-pause where the appchain goes back to lastStatus (rejected logout, master-rule update of a frozen chain) lets a frozen appchain interchange.")
	{
		m := c.Contracts()
		edgeOf := map[*ssa.Call]*core.Edge{}
		for _, e := range m.bvm.Edges {
			edgeOf[e.Site] = e
		}
		manage := c.fn("R16.9", "internal/executor/contracts.(*AppchainManager).Manage")
		appr := constOfPkg(c, "APPROVED")
		// functions that run only on the approved branch of Manage
		approvedOnly := map[*ssa.Function]bool{}
		var notApproved *core.ReachSet
		if manage != nil {
			var resultP *ssa.Parameter
			for _, p := range manage.Params {
				if p.Name() == "proposalResult" {
					resultP = p
				}
			}
			apprEdges := condEdges(manage, func(f core.Fact, ifi *ssa.If) (bool, int) {
				if f.Kind == core.FEqConst && f.Const == appr && resultP != nil && core.Strip(f.Subject) == ssa.Value(resultP) {
					return true, holdsEdge(f)
				}
				return false, 0
			})
			notApproved = core.Reach([]core.Point{core.EntryOf(manage)}, nil, core.CutOf(apprEdges))
			for _, call := range core.Calls(manage) {
				if g := core.StaticCallee(call); g != nil && !notApproved.Has(call) && core.PkgOf(g) == core.PkgOf(manage) {
					approvedOnly[g] = true
				}
			}
			// transitively: a function all of whose call sites lie on the approved branch of Manage or in a function for
			// which that holds (the approved branch split into manageApproved -> manageUpdateApprove ...)
			sitesOf := map[*ssa.Function][]ssa.CallInstruction{}
			for _, fn := range m.funcs {
				for _, call := range core.Calls(fn) {
					if g := core.StaticCallee(call); g != nil && core.PkgOf(g) == core.PkgOf(manage) {
						sitesOf[g] = append(sitesOf[g], call)
					}
				}
			}
			approvedOnly = map[*ssa.Function]bool{}
			for changed := true; changed; {
				changed = false
				for g, css := range sitesOf {
					if approvedOnly[g] || g == manage || len(css) == 0 {
						continue
					}
					all := true
					for _, cs := range css {
						caller := cs.Parent()
						for caller.Parent() != nil {
							caller = caller.Parent()
						}
						if caller == manage && !notApproved.Has(cs) || approvedOnly[caller] {
							continue
						}
						all = false
					}
					if all {
						approvedOnly[g], changed = true, true
					}
				}
			}
		}
		n9 := 0
		for _, fn := range m.funcs {
			isAM := strings.Contains(core.FnName(fn), "AppchainManager)")
			if ct := m.bvm.ContractOfFn(fn); ct != nil && ct.Name == "AppchainManager" {
				isAM = true // also a method of a context struct that carries the appchain manager
			}
			if len(fn.Blocks) == 0 || !isAM {
				continue
			}
			for _, call := range core.Calls(fn) {
				cl, ok := call.(*ssa.Call)
				if !ok || edgeOf[cl] == nil || edgeOf[cl].Method != "UnPauseChainService" {
					continue
				}
				n9++
				key := fmt.Sprintf("%s: UnPauseChainService #%d only when the appchain's services run", shortFn(fn), n9)
				if fn == manage && notApproved != nil && !notApproved.Has(cl) || approvedOnly[fn] {
					r.OK("R16.9", key, c.P.Pos(cl.Pos()), "on the approved branch of Manage: the appchain ends in available (FSM table, R16.2)")
					continue
				}
				runs := condEdges(fn, func(f core.Fact, ifi *ssa.If) (bool, int) {
					if f.Kind == core.FEqConst && (f.Const == "available" || f.Const == "freezing") {
						return true, holdsEdge(f)
					}
					return false, 0
				})
				rs := core.Reach([]core.Point{core.EntryOf(fn)}, nil, core.CutOf(runs))
				r.Check(runs.Len() > 0 && !rs.Has(cl), "R16.9", key, c.P.Pos(cl.Pos()), "behind a comparison of the restored status with available / freezing",
					"the chain's services are un-paused although the appchain returns to whatever status it had before (lastStatus) - for a frozen, updating or activating appchain that status keeps the services paused: after a rejected logout (or an un-pause of a frozen chain) the frozen appchain's services are available again and interchange")
			}
		}
		r.Floor("R16.9", "UnPauseChainService cross-invokes of the appchain manager", n9, 3)
	}

	// ---- R16.6
	r.Rule("R16.6", "no stale write-back: a governance record loaded with QueryById is not written back (Register/Update/SetObject) after a call that changes the stored status of the same id in between.")
	c.staleWriteBack()

	// ---- R16.5
	if at := c.fn("R16.5", execPrefix+"applyTx"); at != nil {
		okEdges := receiptSuccessEdges(at)
		isStore := func(in ssa.Instruction) bool {
			call, ok := in.(ssa.CallInstruction)
			if !ok || core.CalleeName(call) != "(*sync.Map).Store" {
				return false
			}
			_, f, _, ok2 := core.FieldOf(core.Receiver(call))
			return ok2 && f == "serviceCache"
		}
		n := c.behindEdges("R16.5", "applyTx", at, okEdges, c.throughHelpers(isStore), "receipt known successful", "serviceCache.Store")
		r.Floor("R16.5", "service cache fills", n, 1)
		// each event caches its own record: the object stored for a service is allocated in the iteration that
		// decodes it - an object hoisted out of the event loop is shared by every key it was stored under, and the
		// next SERVICE event of the transaction overwrites all of them
		for _, in := range sites(at, isStore) {
			call := in.(ssa.CallInstruction)
			if !core.InLoop(in) || len(call.Common().Args) < 3 {
				continue
			}
			val := call.Common().Args[2]
			perEvent := true
			nAlloc := 0
			for _, o := range core.RetOrigins(val) {
				v := core.Strip(o.V)
				if mi, ok := v.(*ssa.MakeInterface); ok {
					v = core.Strip(mi.X)
				}
				// a pointer variable decoded into (json.Unmarshal(data, &p)): the objects it may point to
				for _, w := range varValues(at, v) {
					if al, isAlloc := core.Strip(w).(*ssa.Alloc); isAlloc && al.Heap {
						nAlloc++
						if !blockReach(in.Block(), al.Block()) {
							perEvent = false
						}
					}
				}
			}
			r.Check(perEvent && nAlloc > 0, "R16.5", "applyTx: the cached service record is allocated per event", c.P.Pos(in.Pos()), "the stored object is created in the iteration that stores it",
				"the object stored into the service cache is created outside the loop over the transaction's events (or its origin is not an allocation of this function): every key stored in this transaction holds the same object, and the last SERVICE event decoded into it overwrites the records cached for the other services - availability checks then use another service's status")
		}
	}
	if rb := c.fn("R16.5", execPrefix+"rollbackBlocks"); rb != nil {
		isRollback := callToMethod("Rollback")
		isReset := func(in ssa.Instruction) bool {
			if storesToField("BlockExecutor", "serviceCache")(in) {
				return true
			}
			call, ok := in.(ssa.CallInstruction)
			if !ok {
				return false
			}
			n := core.CalleeName(call)
			if n == "(*sync.Map).Delete" || n == "(*sync.Map).Range" {
				_, f, _, ok2 := core.FieldOf(core.Receiver(call))
				return ok2 && f == "serviceCache"
			}
			return false
		}
		// from the no-error edge of ledger.Rollback every path to a return passes the reset
		var gs []core.GuardSite
		for _, in := range sites(rb, isRollback) {
			if cl, ok := in.(*ssa.Call); ok {
				gs = append(gs, core.GuardSite{Call: cl, Conv: core.ConvErrNil, Idx: -1})
			}
		}
		var starts []core.Point
		for b, mm := range core.SuccessEdges(rb, gs) {
			for i := range mm {
				starts = append(starts, core.Point{B: b.Succs[i], Idx: 0})
			}
		}
		okReset := len(starts) > 0
		if okReset {
			rs := core.Reach(starts, isReset, nil)
			for _, ret := range core.Returns(rb) {
				if rs.Has(ret) {
					okReset = false
				}
			}
		}
		r.Check(okReset, "R16.5", "rollbackBlocks: cache reset with the ledger", c.P.Pos(rb.Pos()), "every successful path after ledger.Rollback resets the service cache", "after the executor rolled the ledger back the service cache still holds records of the discarded blocks (availability decided from state that no longer exists)")
	}
	// SERVICE event after status change in service manager entries
	m := c.Contracts()
	if sm := m.bvm.ByType["ServiceManager"]; sm != nil {
		post := c.P.Fn("internal/executor/contracts.(*ServiceManager).postServiceEvent")
		if post == nil {
			r.Anchor("R16.5", "ServiceManager.postServiceEvent")
		} else {
			n := 0
			wrappers := map[*ssa.Function]bool{}
			isChange := func(in ssa.Instruction) bool {
				call, ok := in.(ssa.CallInstruction)
				if !ok {
					return false
				}
				nm := core.CalleeName(call)
				if strings.HasSuffix(nm, "service-mgr.ServiceManager).ChangeStatus") || strings.HasSuffix(nm, "service-mgr.ServiceManager).Register") || strings.HasSuffix(nm, "service-mgr.ServiceManager).Update") {
					return true
				}
				// helpers of the contract that change a status and leave the event to their callers (computed below)
				if g := core.StaticCallee(call); g != nil && wrappers[g] {
					return true
				}
				return false
			}
			directPost := func(in ssa.Instruction) bool {
				call, ok := in.(ssa.CallInstruction)
				return ok && core.StaticCallee(call) == post
			}
			// a helper of the contract that posts the event on every path on which it does not report a failure
			// (publishServiceChange: audit event, then the SERVICE event; an error response when either fails)
			postsAlways := map[*ssa.Function]int{}
			isPost := func(in ssa.Instruction) bool {
				if directPost(in) {
					return true
				}
				call, ok := in.(ssa.CallInstruction)
				if !ok {
					return false
				}
				g := core.StaticCallee(call)
				if g == nil || g == post || len(g.Blocks) == 0 || core.PkgOf(g) != core.ContractPkg || len(sites(g, directPost)) == 0 {
					return false
				}
				if v, seen := postsAlways[g]; seen {
					return v == 1
				}
				postsAlways[g] = 2
				rs := core.Reach([]core.Point{core.EntryOf(g)}, directPost, nil)
				ok2 := true
				for _, ret := range core.Returns(g) {
					if !rs.Has(ret) {
						continue
					}
					// a return that skips the post must be a failure value
					fail := len(ret.Results) > 0
					for _, res := range ret.Results {
						for _, o := range core.RetOrigins(res) {
							cc, _ := core.CallOf(o.V)
							if cc == nil || !(strings.HasSuffix(core.CalleeName(cc), "boltvm.Error") || strings.HasSuffix(core.CalleeName(cc), "fmt.Errorf") || strings.HasSuffix(core.CalleeName(cc), "boltvm.BError")) {
								if _, isConstNil := core.Strip(o.V).(*ssa.Const); isConstNil || cc == nil {
									fail = false
								}
							}
						}
					}
					if !fail {
						ok2 = false
					}
				}
				if ok2 {
					postsAlways[g] = 1
				}
				return ok2
			}
			// status-change wrappers: unexported methods of the contract that change a status (directly or through
			// another wrapper) and do not post the event themselves on every successful path - the obligation then
			// lies with each of their callers (pauseService, unPauseService, clearService, and whatever a refactoring
			// extracts from them)
			entrySet := map[*ssa.Function]bool{}
			for _, e := range sm.Entries {
				if e.Fn != nil {
					entrySet[e.Fn] = true
				}
			}
			for changed := true; changed; {
				changed = false
				for _, fn := range m.funcs {
					if wrappers[fn] || entrySet[fn] || fn.Parent() != nil || fn.Signature.Recv() == nil || fn == post || token.IsExported(fn.Name()) ||
						!strings.HasSuffix(core.RecvTypeName(fn.Signature.Recv().Type()), "contracts.ServiceManager") {
						continue
					}
					if len(sites(fn, isChange)) > 0 && !followsAll(fn, isChange, isPost, true) {
						wrappers[fn], changed = true, true
					}
				}
			}
			for _, e := range sm.Entries {
				if !e.Own || e.Fn == nil || len(sites(e.Fn, isChange)) == 0 {
					continue
				}
				n++
				ok := followsAll(e.Fn, isChange, isPost, true)
				r.Check(ok, "R16.5", e.Key()+": SERVICE event after status change", c.P.Pos(e.Fn.Pos()), "every successful path after a status change posts the SERVICE event", "a service status change can complete without the SERVICE event: the executor's cache keeps the old record and gates interchain traffic with it")
			}
			// helpers of the contract that change a status themselves and are not wrappers whose callers post
			// (e.g. pauseOrClearChainService, which walks all services of a chain)
			entryFns := map[*ssa.Function]bool{}
			for _, e := range sm.Entries {
				if e.Fn != nil {
					entryFns[e.Fn] = true
				}
			}
			for _, fn := range m.funcs {
				if entryFns[fn] || fn.Parent() != nil || fn.Signature.Recv() == nil || !strings.HasSuffix(core.RecvTypeName(fn.Signature.Recv().Type()), "contracts.ServiceManager") {
					continue
				}
				if wrappers[fn] || fn == post {
					continue // status-change wrappers: judged at their call sites
				}
				if len(sites(fn, isChange)) == 0 {
					continue
				}
				n++
				ok := followsAll(fn, isChange, isPost, true)
				r.Check(ok, "R16.5", "ServiceManager."+fn.Name()+": SERVICE event after status change", c.P.Pos(fn.Pos()), "every successful path after a status change posts the SERVICE event", "a service status change can complete without the SERVICE event: the executor's cache keeps the old record and gates interchain traffic with it")
			}
			r.Floor("R16.5", "service-manager entries changing status directly", n, 3)
		}
	}
}

// staleWriteBack implements R16.6 for the functions of the contracts package:
// a record loaded from storage (QueryById / GetObject) must not be written
// back (Register / Update / SetObject with that record) after a call that
// changes the stored status of the same id (lost update of the status).
func (c *Ctx) staleWriteBack() {
	r := c.R
	m := c.Contracts()
	var changers []*ssa.Function
	for _, path := range []string{"appchain-mgr.AppchainManager", "service-mgr.ServiceManager", "rule-mgr.RuleManager", "node-mgr.NodeManager"} {
		if f := c.P.Fn("github.com/meshplus/bitxhub-core/" + strings.Replace(path, ".", ".(*", 1) + ").ChangeStatus"); f != nil {
			changers = append(changers, f)
		}
	}
	r.Floor("R16.6", "core ChangeStatus functions resolved", len(changers), 4)
	reachChange := c.callReachingAny(changers)
	isChange := func(in ssa.Instruction) bool {
		call, ok := in.(ssa.CallInstruction)
		if !ok {
			return false
		}
		if g := core.StaticCallee(call); g != nil {
			for _, ch := range changers {
				if g == ch {
					return true
				}
			}
			if g.Name() == "changeStatus" {
				return true
			}
		}
		return reachChange(in)
	}
	nLoads := 0
	for _, fn := range m.funcs {
		for _, call := range core.Calls(fn) {
			cl, ok := call.(*ssa.Call)
			if !ok {
				continue
			}
			o := core.CalleeObj(call)
			if o == nil || o.Name() != "QueryById" {
				continue
			}
			id := core.Arg(call, 0)
			// the record value: type assertions of the first result
			var recs []ssa.Value
			for _, ref := range *cl.Referrers() {
				if ex, ok := ref.(*ssa.Extract); ok && ex.Index == 0 {
					for _, r2 := range *ex.Referrers() {
						if ta, ok := r2.(*ssa.TypeAssert); ok {
							recs = append(recs, ta)
						}
					}
				}
			}
			if len(recs) == 0 {
				continue
			}
			nLoads++
			after := core.Reach([]core.Point{core.After(cl)}, nil, nil)
			for _, w := range core.Calls(fn) {
				wo := core.CalleeObj(w)
				if wo == nil || !after.Has(w) || (wo.Name() != "Register" && wo.Name() != "Update" && wo.Name() != "SetObject") {
					continue
				}
				uses := false
				for _, a := range w.Common().Args {
					for _, rec := range recs {
						if core.Strip(a) == rec || core.Mentions(a, func(v ssa.Value) bool { return v == rec }) {
							uses = true
						}
					}
				}
				if !uses {
					continue
				}
				// a status change of the same id between load and write-back?
				stale := ""
				for _, ch := range sites(fn, isChange) {
					if !after.Has(ch) {
						continue
					}
					same := false
					for _, a := range ch.(ssa.CallInstruction).Common().Args {
						if id != nil && sameValue(a, id) {
							same = true
						}
					}
					if !same {
						continue
					}
					rs := core.Reach([]core.Point{core.After(ch)}, nil, nil)
					if rs.Has(w) {
						stale = c.P.Pos(ch.Pos())
					}
				}
				key := shortFn(fn) + ": write-back of the record loaded by QueryById"
				r.Check(stale == "", "R16.6", key, c.P.Pos(w.Pos()), "no status change of the same id between load and write-back",
					"the record loaded before the status change at "+stale+" is written back afterwards: the stored status (e.g. pause of a service whose chain is unavailable) is overwritten with the stale one")
			}
		}
	}
	r.Floor("R16.6", "record loads by QueryById in the contracts", nLoads, 5)
}

// receiptSuccessEdges: edges of fn on which a *pb.Receipt is known successful.
func receiptSuccessEdges(fn *ssa.Function) core.EdgeSet {
	return condEdges(fn, func(f core.Fact, ifi *ssa.If) (bool, int) {
		if f.Kind == core.FEqConst && f.Field == "Status" {
			switch f.Const {
			case "0":
				return true, holdsEdge(f)
			case "1":
				return true, 1 - holdsEdge(f)
			}
		}
		if f.Kind == core.FBool {
			if call, ok := f.Subject.(*ssa.Call); ok {
				if o := core.CalleeObj(call); o != nil && o.Name() == "IsSuccess" {
					return true, holdsEdge(f)
				}
			}
		}
		return false, 0
	})
}

// c16PauseScope: R16.11.
func (c *Ctx) c16PauseScope() {
	r := c.R
	fn := c.fn("R16.11", "internal/executor/contracts.(*ServiceManager).pauseService")
	if fn == nil {
		return
	}
	var isPause InstrPred
	isPause = func(in ssa.Instruction) bool {
		call, ok := in.(ssa.CallInstruction)
		if !ok || core.CalleeObj(call) == nil || core.CalleeObj(call).Name() != "ChangeStatus" {
			return false
		}
		for _, a := range call.Common().Args {
			if s, ok := core.ConstString(core.Strip(a)); ok && s == "pause" {
				return true
			}
			if enumName(a) == "EventPause" || strings.HasSuffix(enumName(a), "EventPause") {
				return true
			}
			if core.Mentions(a, func(w ssa.Value) bool { s, ok := core.ConstString(w); return ok && s == "pause" }) {
				return true
			}
		}
		return false
	}
	notFrozen := condEdges(fn, func(f core.Fact, ifi *ssa.If) (bool, int) {
		if f.Kind != core.FEqConst || f.Field != "Status" && !strings.Contains(f.Field, "Status") {
			return false, 0
		}
		switch f.Const {
		case "frozen":
			return true, 1 - holdsEdge(f)
		case "available":
			return true, holdsEdge(f)
		}
		return false, 0
	})
	isPauseDirect := isPause
	isPause = func(in ssa.Instruction) bool {
		if isPauseDirect(in) {
			return true
		}
		// through a helper of the service manager that receives the event (changeStatusIfAllowed(id, event))
		call, ok := in.(ssa.CallInstruction)
		if !ok {
			return false
		}
		g := core.StaticCallee(call)
		if g == nil || len(g.Blocks) == 0 || core.PkgOf(g) != core.PkgOf(fn) || g == fn {
			return false
		}
		changes := false
		for _, gc := range core.Calls(g) {
			if o := core.CalleeObj(gc); o != nil && o.Name() == "ChangeStatus" {
				changes = true
			}
		}
		if !changes {
			return false
		}
		for _, a := range call.Common().Args {
			if enumName(a) == "EventPause" || strings.HasSuffix(enumName(a), "EventPause") {
				return true
			}
			if s, ok := core.ConstString(core.Strip(a)); ok && s == "pause" {
				return true
			}
		}
		return false
	}
	n := len(sites(fn, isPause))
	r.Floor("R16.11", "status changes to pause in pauseService", n, 1)
	for _, in := range sites(fn, isPause) {
		key := "pauseService: pause only of a service that is not frozen"
		if notFrozen.Len() == 0 {
			r.Bad("R16.11", key, c.P.Pos(in.Pos()), "pauseService moves every service the FSM lets it (also a frozen one) to pause; the matching un-pause always ends in available: FreezeService approved, then FreezeAppchain + ActivateAppchain approved (or LogoutAppchain submitted and withdrawn by the chain admin alone) - the service is available again and its IBTPs are accepted, without any activate proposal of the service")
			continue
		}
		rs := core.Reach([]core.Point{core.EntryOf(fn)}, nil, core.CutOf(notFrozen))
		r.Check(!rs.Has(in), "R16.11", key, c.P.Pos(in.Pos()), "the status change lies behind a test excluding frozen", "the status change to pause is reachable without the test that excludes a frozen service")
	}
}

// isInterchainFn: a method of the interchain manager, or of a context struct that carries it (ibtpCheck{x: ..}).
func (c *Ctx) isInterchainFn(fn *ssa.Function) bool {
	if strings.Contains(core.FnName(fn), "InterchainManager") {
		return true
	}
	ct := c.Contracts().bvm.ContractOfFn(fn)
	return ct != nil && ct.Name == "InterchainManager"
}
