package rules

import (
	"fmt"
	"sort"
	"strings"

	"bxhlint/core"

	"golang.org/x/tools/go/ssa"
)

func init() { Props["C04"] = C04 }

const tmPrefix = "internal/executor/contracts.(*TransactionManager)."

// protocolEdges: the transition relation stated by the property, as
// (event, source, destination) over protobuf status names.
var protocolEdges = map[string]bool{
	"begin|init|BEGIN":                  true,
	"begin_failure|init|BEGIN_FAILURE":  true,
	"begin_failure|BEGIN|BEGIN_FAILURE": true, // one-to-many: a sibling failed at begin
	"timeout|BEGIN|BEGIN_ROLLBACK":      true,
	"success|BEGIN|SUCCESS":             true,
	"failure|BEGIN|FAILURE":             true,
	"failure|BEGIN_FAILURE|FAILURE":     true,
	"rollback|BEGIN_ROLLBACK|ROLLBACK":  true,
	"failure|BEGIN_ROLLBACK|ROLLBACK":   true,
	"dst_failure|BEGIN|FAILURE":         true,
	"dst_rollback|BEGIN|ROLLBACK":       true,
}

var finalStates = map[string]bool{"SUCCESS": true, "FAILURE": true, "ROLLBACK": true}

// isTxInfoKeyWrite: a ledger write whose key is TxInfoKey(..).
func isTxRecordWrite(in ssa.Instruction) bool {
	call, ok := in.(ssa.CallInstruction)
	if !ok {
		return false
	}
	o := core.CalleeObj(call)
	if o == nil {
		return false
	}
	switch o.Name() {
	case "Set", "Add", "SetState", "AddState":
	default:
		return false
	}
	for _, a := range call.Common().Args {
		if core.Mentions(a, func(v ssa.Value) bool {
			c, ok := v.(*ssa.Call)
			return ok && strings.HasSuffix(core.CalleeName(c), "contracts.TxInfoKey")
		}) {
			return true
		}
	}
	return false
}

// rootAlloc returns the local object an address (&x.F, &x, x) belongs to.
func rootObject(v ssa.Value) ssa.Value {
	for i := 0; i < 10; i++ {
		switch x := v.(type) {
		case *ssa.FieldAddr:
			v = x.X
		case *ssa.IndexAddr:
			v = x.X
		case *ssa.UnOp:
			v = x.X
		case *ssa.MakeInterface:
			v = x.X
		case *ssa.ChangeType:
			v = x.X
		default:
			return v
		}
	}
	return v
}

// C04: cross-chain transaction status follows the protocol state machine.
func C04(c *Ctx) {
	r := c.R
	r.Rule("R04.1", "FSM table: the fsm.Events literal of TransactionManager.setFSM (read from syntax, enum names from the generated TransactionStatus_name table) contains only transitions of the protocol relation stated in the property; no transition leaves SUCCESS, FAILURE or ROLLBACK; every event that callers can fire (receipt2EventM, txStatus2EventM) has a status write-back callback.")
	r.Rule("R04.2", "status writers: every write of a tx record (key TxInfoKey) stores either a freshly created record (in Begin / the record-absent branch) or a status produced by setFSM from a status that was loaded from the stored record on every path (Unmarshal / GetObject precedes setFSM); the executor's timeout write applies BEGIN_ROLLBACK only to ids read from the timeout list of the same height.")
	r.Rule("R04.11", "the event table of its kind: a status code signed by the destination BitXHub (BxhProof.TxStatus) is translated into an FSM event through txStatus2EventM and through no other table, and only such codes are looked up there - also when the code reaches the lookup through a parameter of a helper (then the table and the code of every call site are paired). The two tables share their int32 keys (BEGIN_FAILURE = RECEIPT_SUCCESS = 1, BEGIN_ROLLBACK = RECEIPT_FAILURE = 2): a notice read through the receipt table drives BEGIN to SUCCESS by a transition the FSM table allows.")
	c.c04EventTables()
	c.c04FreshDecode()
	r.Rule("R04.12", "a record begins once: TransactionManager.Begin writes the record of a request without reading it, so what keeps a final transaction final is the freshness test in front of it - in checkIBTP (or the helper that holds its index checks) every accepting path of the request branch passes either the index check of an ordered destination (checkIndex) or, for unordered destinations that take any index, the not-found edge of a lookup of the request's own id (IndexMapKey(ibtp.ID()), which ProcessIBTP records for every accepted request). Without the second a replayed request to an unordered service puts a SUCCESS / FAILURE record back to BEGIN (shared with C02 as R02.10).")
	c.requestFreshness("R04.12")
	r.Rule("R04.3", "a rejected receipt has no effect: in Report and BeginInterBitXHub every record write lies behind the no-error edge of setFSM.")
	r.NotDecided = append(r.NotDecided, "reachability of each edge over histories; contents of inter-BitXHub proofs")
	// clauses of the timeout bookkeeping that are necessary for "final statuses never change" and "a rejected receipt
	// has no effect": a finished transaction that stays listed is overwritten with BEGIN_ROLLBACK at its timeout
	// height, and a rejected receipt must not take a running one out of the list (decided by the C06 rule set)
	r.Borrow(map[string]string{"R06.8": "R04.5", "R06.11": "R04.6", "R06.14": "R04.7", "R06.15": "R04.8", "R06.10": "R04.9"}, func() { C06(c) })

	setFSM := c.fn("R04.1", tmPrefix+"setFSM")
	if setFSM == nil {
		return
	}
	ev := &core.Evaluator{P: c.P}
	fd, pk := c.P.DeclOf(setFSM)
	edges, problems := ev.FSMEvents(pk, fd.Body)
	if len(edges) == 0 {
		// the table may be produced by a function of the package that setFSM calls (transactionFSMEvents())
		for _, call := range core.Calls(setFSM) {
			g := core.StaticCallee(call)
			if g == nil || core.PkgOf(g) != core.PkgOf(setFSM) || !strings.HasSuffix(g.Signature.Results().String(), "fsm.Events)") {
				continue
			}
			if gd, gpk := c.P.DeclOf(g); gd != nil && gd.Body != nil {
				e2, p2 := ev.FSMEvents(gpk, gd.Body)
				edges, problems = append(edges, e2...), append(problems, p2...)
			}
		}
	}
	for _, p := range problems {
		r.Unknown("R04.1", "setFSM table: "+p, c.P.Pos(fd.Pos()), p)
	}
	r.Floor("R04.1", "FSM transitions in setFSM", len(edges), 9)
	events := map[string]bool{}
	for _, e := range edges {
		events[e.Event] = true
		for _, s := range e.Src {
			key := fmt.Sprintf("%s|%s|%s", e.Event, s, e.Dst)
			pos := c.P.Pos(e.Pos)
			switch {
			case finalStates[s]:
				r.Bad("R04.1", "transition "+key, pos, "the transaction FSM has a transition out of the final state "+s)
			case e.DynDst || e.Dst == "":
				r.Bad("R04.1", "transition "+key, pos, "destination state is not a constant")
			case !protocolEdges[key]:
				r.Bad("R04.1", "transition "+key, pos, "transition "+s+" --"+e.Event+"--> "+e.Dst+" is not part of the protocol state machine")
			default:
				r.OK("R04.1", "transition "+key, pos, "in the protocol relation; source not final")
			}
		}
	}
	// fired events and callbacks
	callbacks := map[string]bool{}
	astInspectCallbacks(ev, pk, fd, callbacks)
	for _, tab := range []string{"receipt2EventM", "txStatus2EventM"} {
		m, ok := ev.MapLiteral(pk, tab)
		if !ok {
			r.Anchor("R04.1", "contracts."+tab)
			continue
		}
		var ks []string
		for k := range m {
			ks = append(ks, k)
		}
		sort.Strings(ks)
		for _, k := range ks {
			e := m[k]
			r.Check(events[e] && callbacks[e], "R04.1", tab+"["+k+"] -> "+e, c.P.Pos(fd.Pos()), "event exists in the FSM and has a status write-back callback",
				"fired event "+e+" has no transition or no callback in setFSM: the stored status would not follow the accepted event")
		}
	}

	// R04.2 / R04.3
	m := c.Contracts()
	nW := 0
	for _, fn := range m.funcs {
		ct := m.bvm.ContractOfFn(fn)
		if ct == nil || ct.Name != "TransactionManager" {
			continue
		}
		ws := sites(fn, isTxRecordWrite)
		if len(ws) == 0 {
			continue
		}
		// setFSM calls in fn
		var fsmCalls []*ssa.Call
		for _, call := range core.Calls(fn) {
			if cl, ok := call.(*ssa.Call); ok && core.StaticCallee(call) == setFSM {
				fsmCalls = append(fsmCalls, cl)
			}
		}
		for _, cl := range fsmCalls {
			obj := rootObject(cl.Call.Args[1])
			// loaded: an Unmarshal / GetObject on the same object precedes on every path
			isLoad := func(in ssa.Instruction) bool {
				// record, err := decodeTxRecord(data): the object is assigned the result of a module helper that decodes
				if st, isSt := in.(*ssa.Store); isSt && rootObject(st.Addr) == obj {
					v := st.Val
					if ex, isEx := v.(*ssa.Extract); isEx {
						v = ex.Tuple
					}
					if hc, isCall := v.(*ssa.Call); isCall {
						if g := core.StaticCallee(hc); g != nil && len(g.Blocks) > 0 && c.P.InModule(g) {
							for _, gc := range core.Calls(g) {
								if o := core.CalleeObj(gc); o != nil && (o.Name() == "Unmarshal" || o.Name() == "GetObject") {
									return true
								}
							}
						}
					}
				}
				cc, ok := in.(ssa.CallInstruction)
				if !ok {
					return false
				}
				o := core.CalleeObj(cc)
				if o == nil || (o.Name() != "Unmarshal" && o.Name() != "GetObject") {
					return false
				}
				for _, a := range cc.Common().Args {
					if rootObject(a) == obj {
						return true
					}
				}
				if rv := core.Receiver(cc); rv != nil && rootObject(rv) == obj {
					return true
				}
				return false
			}
			key := shortFn(fn) + ": setFSM on stored status"
			pos := c.P.Pos(cl.Pos())
			if _, isParam := obj.(*ssa.Parameter); isParam {
				r.OKTrivial("R04.2", key, pos, "status belongs to a caller-provided object")
				continue
			}
			// a local initialised from a loaded object (status := txInfo.ChildTxInfo[id])
			if al, ok := obj.(*ssa.Alloc); ok {
				// every whole-value store is a load (field / map element) from a
				// parameter-rooted object, e.g. status := txInfo.ChildTxInfo[id]
				ss := core.StoresTo(al)
				fromParam := len(ss) > 0
				for _, s := range ss {
					var src ssa.Value
					switch x := s.(type) {
					case *ssa.Lookup:
						src = x.X
					case *ssa.UnOp:
						src = x.X
					}
					if src == nil {
						fromParam = false
						continue
					}
					if _, isP := rootObject(src).(*ssa.Parameter); !isP {
						fromParam = false
					}
				}
				if fromParam {
					r.OK("R04.2", key, pos, "status copied from the caller-provided (loaded) transaction info")
					continue
				}
			}
			rs := core.Reach([]core.Point{core.EntryOf(fn)}, isLoad, nil)
			r.Check(!rs.Has(cl), "R04.2", key, pos, "the record is unmarshalled from storage before its status is fed to the FSM",
				"setFSM is applied to a record that was not loaded from storage (the stored status is ignored and treated as the zero value BEGIN; the stored timeout height is lost): path (lines) "+rs.Witness(c.P, cl))
		}
		for _, w := range ws {
			nW++
			key := shortFn(fn) + ": tx record write"
			pos := c.P.Pos(w.Pos())
			if len(fsmCalls) == 0 {
				// creation only
				r.OKTrivial("R04.2", key, pos, "creates the record (no status transition in this function)")
				continue
			}
			// R04.3: behind the success edge of some setFSM, or on a path without any setFSM call (creation branch)
			var gs []core.GuardSite
			for _, cl := range fsmCalls {
				gs = append(gs, core.GuardSite{Call: cl, Conv: core.ConvErrNil, Idx: -1})
			}
			es := core.EdgeSet{}
			for b, mm := range core.SuccessEdges(fn, gs) {
				for i := range mm {
					es.Add(b, i)
				}
			}
			// paths that passed a setFSM call but not its success edge must not reach w
			bad := false
			for _, cl := range fsmCalls {
				rs := core.Reach([]core.Point{core.After(cl)}, nil, core.CutOf(es))
				if rs.Has(w) {
					bad = true
				}
			}
			r.Check(!bad, "R04.3", key, pos, "after a status transition the record is written only across the no-error edge of setFSM", "the record is written although setFSM rejected the event")
		}
	}
	r.Floor("R04.2", "tx record writes in TransactionManager", nW, 2)

	// the timeout edge is applied to whatever the timeout list holds: the list invariant is part of C04
	r.Rule("R04.4", "timeout-list invariant (shared with C06): every accepted receipt removes its request from the list of the recorded height; the stored list stays readable; per-block accumulators extend the element they looked up. Otherwise a finished transaction is overwritten with BEGIN_ROLLBACK at its timeout height.")
	c.timeoutListInvariant("R04.4", "R04.4", "R04.4")

	// executor side
	if str := c.fn("R04.2", execPrefix+"setTimeoutRollback"); str != nil {
		gl := c.P.Fn(execPrefix + "getTimeoutList")
		ok := false
		var height *ssa.Parameter
		for _, p := range str.Params {
			if p.Name() == "height" {
				height = p
			}
		}
		// the written ids are the elements of getTimeoutList(height)
		for _, call := range core.Calls(str) {
			if gl != nil && core.StaticCallee(call) == gl && height != nil && core.Strip(call.Common().Args[1]) == ssa.Value(height) {
				ok = true
			}
		}
		nw := 0
		for _, in := range sites(str, func(in ssa.Instruction) bool {
			call, isC := in.(ssa.CallInstruction)
			return isC && (strings.HasSuffix(core.CalleeName(call), ".setTxRecord") || strings.HasSuffix(core.CalleeName(call), ".setGlobalTxStatus"))
		}) {
			nw++
			call := in.(ssa.CallInstruction)
			id := call.Common().Args[1]
			fromList := core.Mentions(id, func(v ssa.Value) bool {
				cc, isC := v.(*ssa.Call)
				return isC && gl != nil && core.StaticCallee(cc) == gl
			})
			r.Check(ok && fromList, "R04.2", "setTimeoutRollback: "+core.CalleeName(call)[strings.LastIndex(core.CalleeName(call), ".")+1:], c.P.Pos(in.Pos()),
				"BEGIN_ROLLBACK is written only for ids of getTimeoutList(height) (list invariant: C06 R06.3)", "timeout status is written for an id that does not come from the timeout list of the current height")
		}
		r.Floor("R04.2", "timeout status writes", nw, 2)
	}
}

// astInspectCallbacks collects the keys of the fsm.Callbacks literal.
func astInspectCallbacks(ev *core.Evaluator, pk interface{}, fd interface{}, out map[string]bool) {
	// implemented in c04_ast.go to keep go/ast imports local
	collectCallbacks(ev, pk, fd, out)
}

// c04EventTables: R04.11.
func (c *Ctx) c04EventTables() {
	r := c.R
	m := c.Contracts()
	isNotice := func(v ssa.Value) bool {
		return core.Mentions(v, func(w ssa.Value) bool {
			o, f, _, ok := core.FieldOf(w)
			return ok && f == "TxStatus" && strings.HasSuffix(o, "BxhProof")
		})
	}
	globalName := func(v ssa.Value) string {
		if u, ok := core.Strip(v).(*ssa.UnOp); ok {
			if g, ok := u.X.(*ssa.Global); ok {
				return g.Name()
			}
		}
		return ""
	}
	n := 0
	check := func(fn *ssa.Function, lk *ssa.Lookup, table string, notice bool, how string) {
		n++
		key := fmt.Sprintf("%s: %s[%s]", shortFn(fn), table, how)
		switch {
		case table == "txStatus2EventM" && !notice:
			r.Bad("R04.11", key, c.P.Pos(lk.Pos()), "a code that is not the status signed by the destination BitXHub is translated through txStatus2EventM")
		case table != "txStatus2EventM" && notice:
			r.Bad("R04.11", key, c.P.Pos(lk.Pos()), "the status code of the destination BitXHub's notice (BxhProof.TxStatus) is translated through "+table+" instead of txStatus2EventM: the tables share their keys, so BEGIN_FAILURE (1) is read as RECEIPT_SUCCESS and BEGIN_ROLLBACK (2) as RECEIPT_FAILURE - the notice moves the transaction to SUCCESS / FAILURE instead of FAILURE / ROLLBACK")
		default:
			r.OK("R04.11", key, c.P.Pos(lk.Pos()), "table and code are of the same kind")
		}
	}
	for _, fn := range m.funcs {
		for _, b := range fn.Blocks {
			for _, in := range b.Instrs {
				lk, ok := in.(*ssa.Lookup)
				if !ok || !strings.HasSuffix(lk.X.Type().String(), "contracts.TransactionEvent") || !strings.HasPrefix(lk.X.Type().String(), "map[int32]") {
					continue
				}
				tabPar, tabIsPar := core.Strip(lk.X).(*ssa.Parameter)
				keyPar, keyIsPar := core.Strip(lk.Index).(*ssa.Parameter)
				if !tabIsPar && !keyIsPar {
					if t := globalName(lk.X); t != "" {
						check(fn, lk, t, isNotice(lk.Index), "code computed in the function")
					}
					continue
				}
				// table and / or code are parameters: pair them at every call site
				top := fn
				for top.Parent() != nil {
					top = top.Parent()
				}
				idx := func(p *ssa.Parameter) int {
					for i, q := range top.Params {
						if q == p {
							return i
						}
					}
					return -1
				}
				sitesOf := core.StaticSitesOf(top)
				if len(sitesOf) == 0 && !tabIsPar {
					// an entry point: the code is an argument of the invocation (a receipt type), not a signed notice
					if t := globalName(lk.X); t != "" {
						check(fn, lk, t, isNotice(lk.Index), "code is an argument of the entry")
					}
					continue
				}
				if len(sitesOf) == 0 {
					r.Unknown("R04.11", shortFn(fn)+": event lookup through parameters", c.P.Pos(lk.Pos()), "no static call site of the helper found")
					continue
				}
				for _, site := range sitesOf {
					args := site.Common().Args
					table := globalName(lk.X)
					if tabIsPar {
						if i := idx(tabPar); i >= 0 && i < len(args) {
							table = globalName(args[i])
						}
					}
					notice := isNotice(lk.Index)
					if keyIsPar {
						if i := idx(keyPar); i >= 0 && i < len(args) {
							notice = isNotice(args[i])
						}
					}
					if table == "" {
						r.Unknown("R04.11", shortFn(fn)+": event table at call site", c.P.Pos(site.Pos()), "the table handed to the helper is not one of the package's tables")
						continue
					}
					check(fn, lk, table, notice, "from "+shortFn(site.Parent()))
				}
			}
		}
	}
	r.Floor("R04.11", "event-table lookups", n, 4)
}

// requestFreshness: R04.12 = R02.10.
func (c *Ctx) requestFreshness(rule string) {
	r := c.R
	chk := c.fn(rule, "internal/executor/contracts.(*InterchainManager).checkIBTP")
	if chk == nil {
		return
	}
	isIdLookup := func(call ssa.CallInstruction) bool {
		if !core.IsStubCall("Get")(valueOf(call)) || len(call.Common().Args) == 0 {
			return false
		}
		return core.Mentions(call.Common().Args[len(call.Common().Args)-1], func(w ssa.Value) bool {
			cc, ok := w.(*ssa.Call)
			return ok && strings.HasSuffix(core.CalleeName(cc), "contracts.IndexMapKey")
		})
	}
	n := 0
	for _, rf := range c.regionOf(chk, 4) {
		f := rf.fn
		hasIndex := false
		for _, call := range core.Calls(f) {
			if strings.HasSuffix(core.CalleeName(call), "contracts.checkIndex") {
				hasIndex = true
			}
		}
		if !hasIndex || f.Parent() != nil {
			continue
		}
		// is this the function that decides requests? it tests the batch flag / calls checkIndex for requests
		var lookups []*ssa.Call
		for _, call := range core.Calls(f) {
			if cl, ok := call.(*ssa.Call); ok && isIdLookup(call) {
				lookups = append(lookups, cl)
			}
		}
		if f == chk && len(lookups) == 0 {
			// the lookup may sit in a helper of checkIBTP that also holds the index check: decided there
			inHelper := false
			for _, rf2 := range c.regionOf(chk, 4) {
				if rf2.fn == chk || rf2.fn.Parent() != nil {
					continue
				}
				hi, hl := false, false
				for _, call := range core.Calls(rf2.fn) {
					if strings.HasSuffix(core.CalleeName(call), "contracts.checkIndex") {
						hi = true
					}
					if isIdLookup(call) {
						hl = true
					}
				}
				if hi && hl {
					inHelper = true
				}
			}
			if inHelper {
				continue
			}
			n++
			r.Bad(rule, "checkIBTP: a request to an unordered destination is accepted once", c.P.Pos(chk.Pos()), "requests to unordered (batch) destination services skip the index check and nothing else tests whether the request id was handled before: a replayed request begins its transaction again - Begin overwrites the record, a SUCCESS / FAILURE transaction is BEGIN again, for good")
			continue
		}
		if len(lookups) == 0 {
			continue
		}
		n++
		// accepting returns of f lie behind checkIndex's success or the lookup's not-found edge
		es := core.EdgeSet{}
		for _, call := range core.Calls(f) {
			if cl, ok := call.(*ssa.Call); ok && strings.HasSuffix(core.CalleeName(call), "contracts.checkIndex") {
				for b, mm := range core.SuccessEdges(f, []core.GuardSite{{Call: cl, Conv: core.ConvErrNil, Idx: -1}}) {
					for i := range mm {
						es.Add(b, i)
					}
				}
			}
		}
		for _, lk := range lookups {
			es.Merge(condEdges(f, func(fc core.Fact, ifi *ssa.If) (bool, int) {
				if fc.Kind != core.FBool {
					return false, 0
				}
				ex, ok := core.Strip(fc.Subject).(*ssa.Extract)
				if !ok || ex.Tuple != ssa.Value(lk) || ex.Index != 0 {
					return false, 0
				}
				return true, 1 - holdsEdge(fc)
			}))
		}
		rs := core.Reach([]core.Point{core.EntryOf(f)}, nil, core.CutOf(es))
		bad := ""
		if conv, idx, ok := core.ResultConv(f.Signature); ok {
			for _, ret := range core.Returns(f) {
				if rs.Has(ret) && len(ret.Results) > idx && core.MayBeSuccess(f, ret, idx, conv) {
					// a direct return of checkIndex's own result is decided by that result
					if cc, _ := core.CallOf(ret.Results[idx]); cc != nil && strings.HasSuffix(core.CalleeName(cc), "contracts.checkIndex") {
						continue
					}
					bad = c.P.Pos(ret.Pos())
				}
			}
		}
		r.Check(bad == "", rule, shortFn(f)+": every accepting path passes the index check or the not-handled-before test", c.P.Pos(f.Pos()), "accepting returns lie behind checkIndex == nil or Get(IndexMapKey(id)) not found", "an accepting return ("+bad+") is reachable without either test: a request can be accepted twice")
	}
	r.Floor(rule, "functions deciding the freshness of a request", n, 1)
}
