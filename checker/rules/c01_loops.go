package rules

import (
	"fmt"
	"go/token"
	"go/types"
	"os"
	"sort"
	"strings"

	"bxhlint/core"

	"golang.org/x/tools/go/ssa"
)

// mapLoop is a `for k, v := range m` loop over a Go map in SSA form.
type mapLoop struct {
	fn     *ssa.Function
	rg     *ssa.Range
	next   *ssa.Next
	header *ssa.BasicBlock
	body   map[*ssa.BasicBlock]bool // blocks of the loop excluding the header
	exit   *ssa.BasicBlock          // normal exit (iterator exhausted)
}

func isMapType(t types.Type) bool {
	_, ok := t.Underlying().(*types.Map)
	return ok
}

// findMapLoops returns the map-range loops of fn.
func findMapLoops(fn *ssa.Function) []*mapLoop {
	var out []*mapLoop
	for _, b := range fn.Blocks {
		for _, in := range b.Instrs {
			nx, ok := in.(*ssa.Next)
			if !ok || nx.IsString {
				continue
			}
			rg, ok := nx.Iter.(*ssa.Range)
			if !ok || !isMapType(rg.X.Type()) {
				continue
			}
			l := &mapLoop{fn: fn, rg: rg, next: nx, header: b, body: map[*ssa.BasicBlock]bool{}}
			ifi := core.IfOf(b)
			if ifi == nil || len(b.Succs) != 2 {
				continue
			}
			l.exit = b.Succs[1]
			// body: blocks reachable from the true successor that can reach the header again
			reach := map[*ssa.BasicBlock]bool{}
			var fwd func(x *ssa.BasicBlock)
			fwd = func(x *ssa.BasicBlock) {
				if reach[x] || x == b {
					return
				}
				reach[x] = true
				for _, s := range x.Succs {
					fwd(s)
				}
			}
			fwd(b.Succs[0])
			// can reach header
			canReach := map[*ssa.BasicBlock]bool{}
			changed := true
			for changed {
				changed = false
				for x := range reach {
					if canReach[x] {
						continue
					}
					for _, s := range x.Succs {
						if s == b || canReach[s] {
							canReach[x] = true
							changed = true
						}
					}
				}
			}
			for x := range reach {
				if canReach[x] {
					l.body[x] = true
				}
			}
			// blocks reachable from the body that end the function / leave the loop early are
			// "exit paths"; blocks dominated by the body start that do not return to the header
			// (e.g. `return x` inside the loop) belong to the loop's early exits.
			out = append(out, l)
		}
	}
	return out
}

// inLoop reports whether the instruction lies in the loop body (header excluded).
func (l *mapLoop) has(in ssa.Instruction) bool {
	return in.Block() != nil && l.body[in.Block()]
}

// earlyExitBlocks: blocks outside the body reached directly from a body block
// (break / return / goto out), other than the header.
func (l *mapLoop) earlyExits() []*ssa.BasicBlock {
	set := map[*ssa.BasicBlock]bool{}
	for b := range l.body {
		for _, s := range b.Succs {
			if !l.body[s] && s != l.header {
				set[s] = true
			}
		}
	}
	var out []*ssa.BasicBlock
	for b := range set {
		out = append(out, b)
	}
	sort.Slice(out, func(i, j int) bool { return out[i].Index < out[j].Index })
	return out
}

// dependsOnIter: does v depend on the loop's key/value (data dependence within the function)?
func (l *mapLoop) dependsOnIter(v ssa.Value) bool {
	isIter := func(x ssa.Value) bool {
		ex, ok := x.(*ssa.Extract)
		return ok && ex.Tuple == ssa.Value(l.next)
	}
	if !core.Mentions(v, isIter) {
		return false
	}
	// a result of a same-package helper depends on the entry only if the helper lets the argument flow into it
	pk := core.PkgOf(l.fn)
	return core.MentionsThroughCalls(v, isIter, func(g *ssa.Function) bool { return core.PkgOf(g) == pk })
}

// keyOnly: v is a function of the range KEY only (not of the value) - then distinct iterations
// yield distinct v when the function is injective; we accept the key itself, conversions of it
// and Sprintf-free concatenations with constants.
func (l *mapLoop) isKey(v ssa.Value) bool {
	v = core.Strip(v)
	switch x := v.(type) {
	case *ssa.Extract:
		return x.Tuple == ssa.Value(l.next) && x.Index == 1
	case *ssa.Convert:
		return l.isKey(x.X)
	case *ssa.ChangeType:
		return l.isKey(x.X)
	case *ssa.MakeInterface:
		return l.isKey(x.X)
	case *ssa.BinOp:
		if x.Op == token.ADD {
			_, cx := x.X.(*ssa.Const)
			_, cy := x.Y.(*ssa.Const)
			return cx && l.isKey(x.Y) || cy && l.isKey(x.X)
		}
	case *ssa.Phi:
		// `for k := range m` with k captured: the per-iteration variable
		for _, e := range x.Edges {
			if !l.isKey(e) {
				return false
			}
		}
		return len(x.Edges) > 0
	case *ssa.UnOp:
		if x.Op == token.MUL {
			// load of the per-iteration variable: an Alloc inside the loop storing the key
			if a, ok := x.X.(*ssa.Alloc); ok && l.has(a) {
				for _, st := range core.StoresTo(a) {
					if !l.isKey(st) {
						return false
					}
				}
				return true
			}
		}
	}
	return false
}

// effect is one order-relevant action of a loop body.
type loopEffect struct {
	kind string // append | concat | mapstore | store | call | exit
	in   ssa.Instruction
	desc string
	// for append/concat/mapstore/store: the container written
	target ssa.Value
	// classification
	sensitive bool
	why       string
}

func describe(v ssa.Value) string {
	if v == nil {
		return "?"
	}
	if p := core.FieldPath(v); p != "" {
		return p
	}
	if v.Name() != "" {
		return fmt.Sprintf("%s(%T)", v.Name(), v)
	}
	return fmt.Sprintf("%T", v)
}

// outerContainer resolves the first argument of an append / the accumulator of a concat to the
// variable it accumulates in: a header phi, an Alloc outside the loop, a field or a map element.
func (l *mapLoop) outerContainer(v ssa.Value, depth int) ssa.Value {
	if depth > 6 {
		return nil
	}
	switch x := v.(type) {
	case *ssa.Phi:
		if x.Block() == l.header || !l.body[x.Block()] {
			return x
		}
		for _, e := range x.Edges {
			if c := l.outerContainer(e, depth+1); c != nil {
				return c
			}
		}
	case *ssa.UnOp:
		if x.Op == token.MUL {
			switch a := x.X.(type) {
			case *ssa.Alloc:
				if !l.has(a) {
					return a
				}
				return nil
			case *ssa.FieldAddr, *ssa.Global, *ssa.FreeVar:
				return a
			case *ssa.IndexAddr:
				return a
			}
		}
	case *ssa.Lookup:
		return x
	case *ssa.Call:
		// append(append(s, a), b)
		if bn, ok := x.Call.Value.(*ssa.Builtin); ok && bn.Name() == "append" {
			return l.outerContainer(x.Call.Args[0], depth+1)
		}
	case *ssa.Slice:
		return l.outerContainer(x.X, depth+1)
	case *ssa.Parameter, *ssa.FreeVar:
		return x
	case *ssa.Extract, *ssa.Field:
		if !l.has(v.(ssa.Instruction)) {
			return v
		}
	}
	if in, ok := v.(ssa.Instruction); ok && !l.has(in) && in.Block() != l.header {
		return v
	}
	return nil
}

// isCommutativeUpdate: v (the back-edge value of a header phi) is phi <op> x with a commutative,
// associative numeric/boolean operator, or a constant.
func commutativeUpdate(phi *ssa.Phi, v ssa.Value, depth int) bool {
	return commutativeUpdateV(phi, v, depth, map[ssa.Value]bool{ssa.Value(phi): true})
}

// commutativeUpdateV: acc holds the phis that stand for the accumulator on the way (the header phi, the header
// phis of nested loops and the merge phis of conditionals inside the body): `ret` summed up in a nested loop under
// a condition is still a commutative accumulation.
func commutativeUpdateV(phi *ssa.Phi, v ssa.Value, depth int, acc map[ssa.Value]bool) bool {
	if depth > 10 {
		return false
	}
	if acc[v] {
		return true
	}
	free := func(e ssa.Value) bool {
		return !core.Mentions(e, func(x ssa.Value) bool { return acc[x] })
	}
	switch x := v.(type) {
	case *ssa.Const:
		return true
	case *ssa.BinOp:
		switch x.Op {
		case token.ADD:
			if b, ok := x.Type().Underlying().(*types.Basic); ok && b.Info()&types.IsString != 0 {
				return false
			}
			fallthrough
		case token.MUL, token.OR, token.AND, token.XOR, token.LOR, token.LAND:
			return commutativeUpdateV(phi, x.X, depth+1, acc) && free(x.Y) || commutativeUpdateV(phi, x.Y, depth+1, acc) && free(x.X)
		case token.SUB:
			return commutativeUpdateV(phi, x.X, depth+1, acc) && free(x.Y)
		}
	case *ssa.Phi:
		acc[x] = true
		for _, e := range x.Edges {
			if !commutativeUpdateV(phi, e, depth+1, acc) {
				return false
			}
		}
		return true
	}
	return false
}

func mentionsPhi(v ssa.Value, phi *ssa.Phi) bool {
	return core.Mentions(v, func(x ssa.Value) bool { return x == ssa.Value(phi) })
}

// effects lists the order-relevant actions of the loop.
func (l *mapLoop) effects(kinds func(ssa.Instruction) core.KindSet, wm *writeModel) []loopEffect {
	var out []loopEffect
	add := func(e loopEffect) { out = append(out, e) }
	// header phis (other than the iterator bookkeeping)
	for _, in := range l.header.Instrs {
		phi, ok := in.(*ssa.Phi)
		if !ok {
			continue
		}
		for i, e := range phi.Edges {
			pred := l.header.Preds[i]
			if !l.body[pred] {
				continue
			}
			if commutativeUpdate(phi, e, 0) {
				continue
			}
			// appends/concats are reported at their own instruction
			if cc, ok := e.(*ssa.Call); ok {
				if bn, ok := cc.Call.Value.(*ssa.Builtin); ok && bn.Name() == "append" {
					continue
				}
			}
			if bo, ok := e.(*ssa.BinOp); ok && bo.Op == token.ADD {
				continue
			}
			add(loopEffect{kind: "carry", in: phi, target: phi, desc: "loop-carried variable " + describe(phi) + " = " + describe(e), sensitive: l.dependsOnIter(e) || true})
		}
	}
	var blocks []*ssa.BasicBlock
	for b := range l.body {
		blocks = append(blocks, b)
	}
	sort.Slice(blocks, func(i, j int) bool { return blocks[i].Index < blocks[j].Index })
	for _, b := range blocks {
		for _, in := range b.Instrs {
			switch x := in.(type) {
			case *ssa.Call:
				if bn, ok := x.Call.Value.(*ssa.Builtin); ok {
					switch bn.Name() {
					case "append":
						t := l.outerContainer(x.Call.Args[0], 0)
						if t == nil {
							continue
						}
						e := loopEffect{kind: "append", in: in, target: t, desc: "append to " + describe(t), sensitive: true}
						if lk, ok := t.(*ssa.Lookup); ok && l.isKey(lk.Index) {
							e.sensitive, e.why = false, "element of a map keyed by the range key"
						}
						add(e)
					case "delete":
						// delete(m, k): order-insensitive
					}
					continue
				}
				ks := core.KindSet{}
				if kinds != nil {
					ks = kinds(in)
				}
				if len(ks) > 0 {
					add(loopEffect{kind: "call", in: in, desc: "call " + shortCallee(x) + " {" + ks.String() + "}", sensitive: true})
					continue
				}
				// any other call that may write state which outlives it
				if wm != nil && wm.mayWrite(x, 0) {
					// writes confined to objects created in this iteration do not count
					confined := true
					for _, a := range x.Call.Args {
						if strings.Contains(a.Type().String(), "logrus.") {
							continue
						}
						switch a.Type().Underlying().(type) {
						case *types.Pointer, *types.Map, *types.Slice, *types.Interface:
							if ai, ok := core.Strip(a).(ssa.Instruction); ok && l.has(ai) {
								if _, isAlloc := core.Strip(a).(*ssa.Alloc); isAlloc {
									continue
								}
							}
							// the entry's own object (the range value): one distinct object per iteration
							if l.dependsOnIter(a) {
								continue
							}
							confined = false
						}
					}
					callee := core.StaticCallee(x)
					if callee != nil && len(callee.Blocks) > 0 && confined {
						// a module function: does it write anything else than its parameters?
						confined = !wm.writesBeyondParams(callee)
					} else if callee == nil || len(callee.Blocks) == 0 {
						confined = false
					}
					if !confined {
						if os.Getenv("BXH_DEBUG") != "" {
							fmt.Println("DBG notconfined", shortCallee(x), "callee", callee != nil)
							for _, a := range x.Call.Args {
								fmt.Printf("   arg %s %T dep=%v\n", a.Type(), a, l.dependsOnIter(a))
							}
						}
						add(loopEffect{kind: "call", in: in, desc: "call " + shortCallee(x) + " {may write}", sensitive: true})
						continue
					}
				}
				// calls that receive a pointer/slice/map rooted outside the loop may accumulate into it
				for _, a := range x.Call.Args {
					switch a.Type().Underlying().(type) {
					case *types.Pointer, *types.Map:
						if !l.dependsOnIter(a) {
							if t := l.outerContainer(a, 0); t != nil && !isPureCallee(x) {
								add(loopEffect{kind: "call-arg", in: in, target: t, desc: "call " + shortCallee(x) + " with outer " + describe(t), sensitive: true})
							}
						}
					}
				}
			case *ssa.BinOp:
				if x.Op == token.ADD {
					if b, ok := x.Type().Underlying().(*types.Basic); ok && b.Info()&types.IsString != 0 {
						if t := l.outerContainer(x.X, 0); t != nil {
							if _, isPhi := t.(*ssa.Phi); isPhi {
								add(loopEffect{kind: "concat", in: in, target: t, desc: "string accumulation in " + describe(t), sensitive: true})
							}
						}
					}
				}
			case *ssa.MapUpdate:
				if in2, ok := x.Map.(ssa.Instruction); ok && l.has(in2) {
					continue // map created inside the iteration
				}
				e := loopEffect{kind: "mapstore", in: in, target: x.Map, desc: "store into map " + describe(x.Map), sensitive: true}
				switch {
				case l.isKey(x.Key):
					e.sensitive, e.why = false, "keyed by the range key"
				default:
					if _, isC := x.Key.(*ssa.Const); isC {
						if _, vc := x.Value.(*ssa.Const); vc {
							e.sensitive, e.why = false, "constant key and value"
						}
					}
				}
				add(e)
			case *ssa.Store:
				var outer ssa.Value
				switch a := x.Addr.(type) {
				case *ssa.Alloc:
					if !l.has(a) {
						outer = a
					}
				case *ssa.FieldAddr:
					if root := rootObject(a); root != nil {
						if ri, ok := root.(ssa.Instruction); !ok || !l.has(ri) {
							outer = a
						}
					}
				case *ssa.Global, *ssa.FreeVar:
					outer = a
				case *ssa.IndexAddr:
					if t := l.outerContainer(a.X, 0); t != nil {
						outer = a
					}
				}
				if outer == nil {
					continue
				}
				e := loopEffect{kind: "store", in: in, target: outer, desc: "store to outer " + describe(outer), sensitive: true}
				if _, isC := x.Val.(*ssa.Const); isC {
					e.sensitive, e.why = false, "constant flag"
				} else if lazyInit(x) {
					// if loc == nil { loc = make(..) }: whichever entry comes first stores an equal empty container
					e.sensitive, e.why = false, "lazy creation of an empty container behind its nil test"
				} else if bo, ok := x.Val.(*ssa.BinOp); ok {
					// x = x + n
					if u, ok := bo.X.(*ssa.UnOp); ok && u.Op == token.MUL && u.X == x.Addr && (bo.Op == token.ADD || bo.Op == token.OR || bo.Op == token.MUL) {
						if b, ok := bo.Type().Underlying().(*types.Basic); ok && b.Info()&types.IsString == 0 {
							e.sensitive, e.why = false, "commutative accumulation"
						}
					}
				} else if cc, ok := x.Val.(*ssa.Call); ok {
					if bn, ok := cc.Call.Value.(*ssa.Builtin); ok && bn.Name() == "append" {
						continue // reported as append
					}
				}
				add(e)
			case *ssa.Send:
				add(loopEffect{kind: "send", in: in, desc: "channel send", sensitive: true})
			case *ssa.Go:
				add(loopEffect{kind: "go", in: in, desc: "goroutine start", sensitive: false, why: "ordering of goroutines is decided by R01.3"})
			}
		}
	}
	// early exits using iteration-dependent values
	for _, xb := range l.earlyExits() {
		// phis of the exit block fed from the body with iteration-dependent values
		uses := false
		what := ""
		seen := map[*ssa.BasicBlock]bool{}
		var walk func(b *ssa.BasicBlock)
		walk = func(b *ssa.BasicBlock) {
			if seen[b] || l.body[b] || b == l.header {
				return
			}
			seen[b] = true
			for _, in := range b.Instrs {
				if _, isDbg := in.(*ssa.DebugRef); isDbg {
					continue
				}
				var ops []*ssa.Value
				for _, op := range in.Operands(ops) {
					if *op == nil {
						continue
					}
					if l.dependsOnIter(*op) {
						uses = true
						if what == "" {
							what = fmt.Sprintf("%T at %s", in, "")
						}
					}
				}
			}
			for _, s := range b.Succs {
				walk(s)
			}
		}
		walk(xb)
		if uses {
			var at ssa.Instruction
			if len(xb.Instrs) > 0 {
				at = xb.Instrs[len(xb.Instrs)-1]
			}
			add(loopEffect{kind: "exit", in: at, desc: "early exit carrying iteration-dependent values", sensitive: true})
		}
	}
	return out
}

func isPureCallee(call *ssa.Call) bool {
	n := core.CalleeName(call)
	for _, p := range []string{"fmt.", "strings.", "strconv.", "encoding/json.Marshal", "bytes.", "(*math/big.Int)", "sort.", "(*github.com/sirupsen/logrus", "(github.com/sirupsen/logrus", "errors.", "encoding/json.Unmarshal", "encoding/hex.", "time.Since"} {
		if strings.HasPrefix(n, p) {
			return true
		}
	}
	if o := core.CalleeObj(call); o != nil {
		switch o.Name() {
		case "Unmarshal", "Marshal", "String", "Error", "Bytes", "Hash", "GetHash":
			return true
		}
	}
	return false
}

// C01Dump prints every map-range loop in scope with its effects.
func C01Dump(c *Ctx) {
	m := c.Contracts()
	n := 0
	for _, fn := range c.P.ModuleFuncs(true) {
		if !c01Scope(core.PkgOf(fn)) {
			continue
		}
		for _, l := range findMapLoops(fn) {
			n++
			fmt.Printf("LOOP %s %s over %s\n", c.P.Pos(l.rg.Pos()), shortFn(fn), describe(l.rg.X))
			for _, e := range l.effects(func(in ssa.Instruction) core.KindSet { return m.eff.InstrKinds(in) }, &writeModel{memo: map[*ssa.Function]int{}}) {
				s := "insensitive(" + e.why + ")"
				if e.sensitive {
					s = "SENSITIVE"
				}
				pos := ""
				if e.in != nil {
					pos = c.P.Pos(e.in.Pos())
				}
				fmt.Printf("    %-9s %-10s %s  %s\n", e.kind, s, e.desc, pos)
			}
		}
	}
	fmt.Println("loops:", n)
}

func c01Scope(pk string) bool {
	switch pk {
	case "internal/executor", "internal/executor/contracts", "internal/ledger", "internal/ledger/genesis", "pkg/vm/boltvm", "pkg/proof", "pkg/vm", "pkg/vm/wasm", "pkg/vm/wasm/vmledger", "pkg/utils":
		return true
	}
	return false
}

var readOnlyName = []string{"Get", "Is", "Has", "Load", "Lookup", "Query", "String", "Error", "Bytes", "Hash", "Logger", "Len", "Cmp", "Equal", "Contains", "Address", "Parse", "Unmarshal", "Marshal", "Check", "Current", "Caller", "Callee", "Sign", "Int64", "Uint64", "Validate", "Verify", "Type", "Category", "ID", "Code", "Copy", "Exist", "Version", "Events", "Balance", "Nonce", "Sum", "Keccak", "Make", "Decode", "Encode", "Compare", "InnerAccountChanged", "Merkle", "Recover", "Trim", "Split", "Join", "Format", "Atoi", "Itoa", "Evaluate", "TypeOf", "ValueOf"}

type writeModel struct {
	memo  map[*ssa.Function]int // 0 unknown, 1 read-only, 2 writes, 3 in progress
	depth int
}

func nonLocalRoot(fn *ssa.Function, v ssa.Value) bool {
	for i := 0; i < 10; i++ {
		switch x := v.(type) {
		case *ssa.FieldAddr:
			v = x.X
		case *ssa.IndexAddr:
			v = x.X
		case *ssa.UnOp:
			if x.Op != token.MUL {
				return true
			}
			v = x.X
		case *ssa.Alloc:
			return false
		case *ssa.MakeMap, *ssa.MakeSlice:
			return false
		case *ssa.Parameter, *ssa.FreeVar, *ssa.Global:
			return true
		case *ssa.Phi:
			for _, e := range x.Edges {
				if nonLocalRoot(fn, e) {
					return true
				}
			}
			return false
		case *ssa.Call:
			// result of a call: a fresh value when the callee is a constructor-like builtin
			if bn, ok := x.Call.Value.(*ssa.Builtin); ok && bn.Name() == "append" {
				v = x.Call.Args[0]
				continue
			}
			return true
		case *ssa.Extract, *ssa.Lookup, *ssa.TypeAssert, *ssa.Field:
			return true
		default:
			return true
		}
	}
	return true
}

// mayWrite: can the call modify state that outlives it (other than through values created by itself)?
func (w *writeModel) mayWrite(call ssa.CallInstruction, depth int) bool {
	if _, ok := call.Common().Value.(*ssa.Builtin); ok {
		return false
	}
	if c, ok := call.(*ssa.Call); ok && isPureCallee(c) {
		return false
	}
	n := core.CalleeName(call)
	if strings.Contains(n, "sirupsen/logrus") || strings.HasPrefix(n, "(*sync.") || strings.HasPrefix(n, "(*github.com/prometheus") || strings.Contains(n, "prometheus") {
		return false
	}
	callee := core.StaticCallee(call)
	if callee != nil && len(callee.Blocks) > 0 && callee.Package() != nil && core.InModulePath(callee.Package().Pkg.Path()) {
		return w.fnWrites(callee, depth)
	}
	if o := core.CalleeObj(call); o != nil {
		for _, p := range readOnlyName {
			if strings.HasPrefix(o.Name(), p) {
				return false
			}
		}
		if strings.HasPrefix(o.Name(), "New") {
			return false
		}
	}
	return true
}

func (w *writeModel) fnWrites(fn *ssa.Function, depth int) bool {
	switch w.memo[fn] {
	case 1, 3:
		return false
	case 2:
		return true
	}
	if depth > 5 {
		return true
	}
	w.memo[fn] = 3
	res := false
	for _, f := range core.WithClosures(fn) {
		for _, b := range f.Blocks {
			for _, in := range b.Instrs {
				switch x := in.(type) {
				case *ssa.Store:
					if nonLocalRoot(f, x.Addr) {
						res = true
					}
				case *ssa.MapUpdate:
					if nonLocalRoot(f, x.Map) {
						res = true
					}
				case *ssa.Send:
					res = true
				case ssa.CallInstruction:
					if bn, ok := x.Common().Value.(*ssa.Builtin); ok {
						if bn.Name() == "delete" && nonLocalRoot(f, x.Common().Args[0]) {
							res = true
						}
						continue
					}
					if w.mayWrite(x, depth+1) {
						res = true
					}
				}
				if res {
					break
				}
			}
			if res {
				break
			}
		}
		if res {
			break
		}
	}
	if res {
		w.memo[fn] = 2
	} else {
		w.memo[fn] = 1
	}
	return res
}

// writesBeyondParams: fn writes to globals / captured variables, sends, or calls something that may write
// state not reachable from its own parameters.
func (w *writeModel) writesBeyondParams(fn *ssa.Function) bool {
	for _, f := range core.WithClosures(fn) {
		for _, b := range f.Blocks {
			for _, in := range b.Instrs {
				switch x := in.(type) {
				case *ssa.Store:
					if rootIsGlobalOrFree(x.Addr) {
						if os.Getenv("BXH_DEBUG") != "" {
							fmt.Println("DBG beyond store", fn.Name(), x)
						}
						return true
					}
				case *ssa.MapUpdate:
					if rootIsGlobalOrFree(x.Map) {
						if os.Getenv("BXH_DEBUG") != "" {
							fmt.Println("DBG beyond mapupdate", fn.Name(), x)
						}
						return true
					}
				case *ssa.Send:
					if os.Getenv("BXH_DEBUG") != "" {
						fmt.Println("DBG beyond send", fn.Name())
					}
					return true
				case ssa.CallInstruction:
					if _, ok := x.Common().Value.(*ssa.Builtin); ok {
						continue
					}
					if g := core.StaticCallee(x); g != nil && len(g.Blocks) > 0 && g != fn && w.depth < 4 && g.Package() != nil && core.InModulePath(g.Package().Pkg.Path()) {
						// arguments rooted in our own parameters / locals: the callee's writes through them stay within them
						rooted := true
						for _, a := range x.Common().Args {
							switch a.Type().Underlying().(type) {
							case *types.Pointer, *types.Map, *types.Slice:
								if rootIsGlobalOrFree(a) {
									rooted = false
								}
							}
						}
						if rooted {
							w.depth++
							wb := w.writesBeyondParams(g)
							w.depth--
							if wb {
								if os.Getenv("BXH_DEBUG") != "" {
									fmt.Println("DBG beyond via", fn.Name(), "->", g.Name())
								}
								return true
							}
							continue
						}
					}
					if w.mayWrite(x, 1) {
						if os.Getenv("BXH_DEBUG") != "" {
							fmt.Println("DBG beyond", fn.Name(), "->", core.CalleeName(x))
						}
						return true
					}
				}
			}
		}
	}
	return false
}

func rootIsGlobalOrFree(v ssa.Value) bool {
	for i := 0; i < 10; i++ {
		switch x := v.(type) {
		case *ssa.FieldAddr:
			v = x.X
		case *ssa.IndexAddr:
			v = x.X
		case *ssa.UnOp:
			v = x.X
		case *ssa.Global:
			return true
		case *ssa.FreeVar:
			// a variable of the enclosing function captured by a closure of it: local to the call
			return false
		default:
			return false
		}
	}
	return false
}

// lazyInit: st stores a fresh empty container (make) into a location in the block entered on the nil edge of a test
// of that same location: `if x.m == nil { x.m = make(map..) }`.
func lazyInit(st *ssa.Store) bool {
	switch st.Val.(type) {
	case *ssa.MakeMap, *ssa.MakeSlice:
	default:
		return false
	}
	same := func(a, b ssa.Value) bool {
		if a == b {
			return true
		}
		fa, okA := a.(*ssa.FieldAddr)
		fb, okB := b.(*ssa.FieldAddr)
		return okA && okB && fa.Field == fb.Field && core.Strip(fa.X) == core.Strip(fb.X)
	}
	b := st.Block()
	for _, p := range b.Preds {
		ifi := core.IfOf(p)
		if ifi == nil {
			return false
		}
		f := core.CondFact(ifi.Cond)
		if f.Kind != core.FNil {
			return false
		}
		bo, ok := ifi.Cond.(*ssa.BinOp)
		if !ok {
			return false
		}
		var tested ssa.Value
		for _, side := range []ssa.Value{bo.X, bo.Y} {
			if u, ok := side.(*ssa.UnOp); ok && u.Op == token.MUL {
				tested = u.X
			}
		}
		if tested == nil || !same(tested, st.Addr) {
			return false
		}
		// the store's block is the successor on which the location is nil
		nilEdge := 0
		if f.Negated {
			nilEdge = 1
		}
		if p.Succs[nilEdge] != b {
			return false
		}
	}
	return len(b.Preds) > 0
}
