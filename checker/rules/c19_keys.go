package rules

import (
	"fmt"
	"sort"
	"strings"

	"bxhlint/core"

	"golang.org/x/tools/go/ssa"
)

// keyClass describes how a btree key is built: its struct type and, for keys
// with a timestamp component, where that component comes from.
//
//	"orderedTimeoutKey/tx-timestamp"  timestamp = tx.GetTimeStamp()
//	"orderedTimeoutKey/recorded"      timestamp = a parameter / a value recorded in the owner
//	"orderedIndexKey", "sortedNonceKey"
//	""                                 unknown (the key is passed in from outside)
func keyClassOf(v ssa.Value, depth int) string {
	v = core.Strip(v)
	switch x := v.(type) {
	case *ssa.MakeInterface:
		return keyClassOf(x.X, depth)
	case *ssa.TypeAssert:
		return keyClassOf(x.X, depth)
	case *ssa.Parameter:
		// the element handed to the callback of <index>.Ascend*(func(item) ..): a key of THAT index
		cb := x.Parent()
		if cb == nil || cb.Parent() == nil {
			return ""
		}
		for _, call := range core.Calls(cb.Parent()) {
			o := core.CalleeObj(call)
			if o == nil || !strings.HasPrefix(o.Name(), "Ascend") && !strings.HasPrefix(o.Name(), "Descend") {
				continue
			}
			for _, a := range call.Common().Args {
				if ct, isCT := a.(*ssa.ChangeType); isCT {
					a = ct.X
				}
				mc, ok := a.(*ssa.MakeClosure)
				if !ok || mc.Fn != ssa.Value(cb) {
					continue
				}
				rv := core.Receiver(call)
				if rv == nil {
					continue
				}
				if _, fld, base, ok := core.FieldOf(rv); ok {
					if fld == "data" {
						if _, f2, _, ok2 := core.FieldOf(base); ok2 {
							return "elements-of:" + f2
						}
					}
					// a wrapper owning its tree (txArrivedTimeMap.index): the identity used for the wrapper's methods
					return "elements-of:" + core.RecvTypeName(base.Type()) + "." + fld
				}
			}
		}
		return ""
	case *ssa.Alloc:
		tn := core.RecvTypeName(x.Type())
		if i := strings.LastIndex(tn, "."); i >= 0 {
			tn = tn[i+1:]
		}
		if tn != "orderedTimeoutKey" {
			return tn
		}
		// the store to the timestamp field
		for _, ref := range *x.Referrers() {
			fa, ok := ref.(*ssa.FieldAddr)
			if !ok {
				continue
			}
			if _, fld, _, ok := core.FieldOf(fa); !ok || fld != "timestamp" {
				continue
			}
			for _, r2 := range *fa.Referrers() {
				st, ok := r2.(*ssa.Store)
				if !ok || st.Addr != ssa.Value(fa) {
					continue
				}
				if core.Mentions(st.Val, func(w ssa.Value) bool {
					cc, ok := w.(*ssa.Call)
					return ok && core.CalleeObj(cc) != nil && core.CalleeObj(cc).Name() == "GetTimeStamp"
				}) {
					return tn + "/tx-timestamp"
				}
				return tn + "/recorded"
			}
		}
		return tn + "/recorded"
	case *ssa.Call:
		if depth > 2 {
			return ""
		}
		callee := core.StaticCallee(x)
		if callee == nil || len(callee.Blocks) == 0 {
			return ""
		}
		cls := map[string]bool{}
		for _, ret := range core.Returns(callee) {
			if len(ret.Results) == 1 {
				cls[keyClassOf(ret.Results[0], depth+1)] = true
			}
		}
		if len(cls) == 1 {
			for k := range cls {
				return k
			}
		}
	}
	return ""
}

type keySite struct {
	index string // identity of the index: the field it is reached through
	op    string
	class string
	pos   string
	fn    string
}

// indexKeySites collects every btree operation of the mempool package together
// with the identity of the index it works on. Operations inside methods whose
// receiver is the index wrapper itself (btreeIndex, txLiveTimeMap, ...) are
// summarised and attributed to the field the wrapper is reached through at
// each call site of the method.
func (c *Ctx) indexKeySites() []keySite {
	btreeOps := map[string]bool{"ReplaceOrInsert": true, "Delete": true, "Has": true, "Get": true}
	type sum struct{ op, class, pos string }
	methodSum := map[*ssa.Function][]sum{}
	var out []keySite
	var fns []*ssa.Function
	for _, fn := range c.P.ModuleFuncs(true) {
		if core.PkgOf(fn) == "pkg/order/mempool" {
			fns = append(fns, fn)
		}
	}
	for _, fn := range fns {
		for _, call := range core.Calls(fn) {
			o := core.CalleeObj(call)
			if o == nil || !btreeOps[o.Name()] || !strings.HasSuffix(core.CalleeName(call), "btree.BTree)."+o.Name()) {
				continue
			}
			rv := core.Receiver(call)
			if rv == nil || len(call.Common().Args) < 2 && call.Common().IsInvoke() {
				continue
			}
			args := call.Common().Args
			key := args[len(args)-1]
			class := keyClassOf(key, 0)
			_, fld, base, ok := core.FieldOf(rv)
			if !ok {
				continue
			}
			pos := c.P.Pos(call.Pos())
			// a closure of a wrapper method that captured the receiver (walkAccountTxs(txs, func(..) { idx.data.Delete(..) })):
			// the operation belongs to the method
			if fn.Parent() != nil {
				top := fn
				for top.Parent() != nil {
					top = top.Parent()
				}
				if top.Signature.Recv() != nil && len(top.Params) > 0 {
					b := core.Strip(base)
					if u, isU := b.(*ssa.UnOp); isU {
						b = u.X
					}
					if fv, isFV := b.(*ssa.FreeVar); isFV && fv.Name() == top.Params[0].Name() {
						owner := core.RecvTypeName(top.Params[0].Type())
						if fld == "data" {
							methodSum[top] = append(methodSum[top], sum{o.Name(), class, pos})
						} else {
							out = append(out, keySite{owner + "." + fld, o.Name(), class, pos, shortFn(top)})
						}
						continue
					}
				}
			}
			// receiver-rooted: fn is a method of the wrapper
			if p, isP := core.Strip(base).(*ssa.Parameter); isP && len(fn.Params) > 0 && p == fn.Params[0] && fn.Signature.Recv() != nil {
				// wrappers owning the tree directly (txLiveTimeMap.index): the identity is the wrapper type's field
				owner := core.RecvTypeName(p.Type())
				if fld == "data" {
					methodSum[fn] = append(methodSum[fn], sum{o.Name(), class, pos})
				} else {
					out = append(out, keySite{owner + "." + fld, o.Name(), class, pos, shortFn(fn)})
				}
				continue
			}
			// direct use: <x>.<indexField>.data.Op(key)
			if fld == "data" {
				if _, f2, _, ok2 := core.FieldOf(base); ok2 {
					out = append(out, keySite{f2, o.Name(), class, pos, shortFn(fn)})
					continue
				}
			}
			owner := core.RecvTypeName(base.Type())
			out = append(out, keySite{owner + "." + fld, o.Name(), class, pos, shortFn(fn)})
		}
	}
	// attribute wrapper-method summaries to the field at each call site
	for _, fn := range fns {
		for _, call := range core.Calls(fn) {
			callee := core.StaticCallee(call)
			if callee == nil || len(methodSum[callee]) == 0 {
				continue
			}
			rv := core.Receiver(call)
			if rv == nil {
				continue
			}
			_, fld, _, ok := core.FieldOf(rv)
			if !ok {
				fld = "?"
			}
			for _, s := range methodSum[callee] {
				out = append(out, keySite{fld, s.op + " via " + callee.Name(), s.class, c.P.Pos(call.Pos()), shortFn(fn)})
			}
		}
	}
	sort.Slice(out, func(i, j int) bool {
		if out[i].index != out[j].index {
			return out[i].index < out[j].index
		}
		return out[i].pos < out[j].pos
	})
	return out
}

// c19KeyAgreement: R19.5.
func (c *Ctx) c19KeyAgreement() {
	r := c.R
	byIndex := map[string][]keySite{}
	for _, s := range c.indexKeySites() {
		byIndex[s.index] = append(byIndex[s.index], s)
	}
	var names []string
	for k := range byIndex {
		names = append(names, k)
	}
	sort.Strings(names)
	nSites := 0
	for _, idx := range names {
		ss := byIndex[idx]
		// reference: the class of the insertions
		ref := map[string]bool{}
		for _, s := range ss {
			if strings.HasPrefix(s.op, "ReplaceOrInsert") && s.class != "" {
				ref[s.class] = true
			}
		}
		var refs []string
		for k := range ref {
			refs = append(refs, k)
		}
		sort.Strings(refs)
		if len(refs) == 0 {
			r.Unknown("R19.5", "index "+idx+": key class of insertions", ss[0].pos, "no insertion with a recognisable key found for this index")
			continue
		}
		if len(refs) > 1 {
			r.Bad("R19.5", "index "+idx+": one key class", ss[0].pos, "insertions into this index build their keys in different ways: "+strings.Join(refs, ", "))
			continue
		}
		for _, s := range ss {
			nSites++
			if strings.HasPrefix(s.class, "elements-of:") {
				// a key taken out of another index: it has that index's key class
				src := strings.TrimPrefix(s.class, "elements-of:")
				s.class = ""
				for other, oss := range byIndex {
					if other == src || strings.HasSuffix(other, "."+src) {
						for _, os := range oss {
							if strings.HasPrefix(os.op, "ReplaceOrInsert") && os.class != "" && !strings.HasPrefix(os.class, "elements-of:") {
								s.class = os.class + " (an element of " + src + ")"
								if other == idx {
									s.class = os.class
								}
							}
						}
					}
				}
			}
			if s.class == "" {
				r.Note("R19.5", "index "+idx+": "+s.fn+" "+s.op, s.pos, "receives its key from the caller (not classified)")
				continue
			}
			r.Check(s.class == refs[0] || strings.HasPrefix(s.class, refs[0]+" (an element of "), "R19.5", "index "+idx+": "+s.fn+" "+s.op+" uses the index's key", s.pos, refs[0],
				"this index is keyed by "+refs[0]+" but the key used here is "+s.class+": the probe/removal never matches the stored entry (a ready transaction is not recognised as ready, or a stale entry survives)")
		}
	}
	r.Floor("R19.5", "btree operations attributed to an index", nSites, 12)
}

// c19RecordedKey: R19.5 (second part) - an index wrapper that records the timestamp component of its keys in a
// side map (items[account-nonce] = time) deletes an index entry under the recorded time, not under a new one.
func (c *Ctx) c19RecordedKey() {
	r := c.R
	n := 0
	for _, fn := range c.P.ModuleFuncs(true) {
		if core.PkgOf(fn) != "pkg/order/mempool" || len(fn.Blocks) == 0 || fn.Signature.Recv() == nil {
			continue
		}
		for _, call := range core.Calls(fn) {
			o := core.CalleeObj(call)
			if o == nil || o.Name() != "Delete" || !strings.Contains(core.CalleeName(call), "btree") {
				continue
			}
			_, idxField, base, ok := core.FieldOf(core.Receiver(call))
			if !ok || idxField != "index" || len(call.Common().Args) == 0 {
				continue
			}
			// does the owner keep a side map `items`?
			hasItems := false
			for _, b := range fn.Blocks {
				for _, in := range b.Instrs {
					if v, isV := in.(ssa.Value); isV {
						if _, f, b2, okf := core.FieldOf(v); okf && f == "items" && sameValue(b2, base) {
							hasItems = true
						}
					}
				}
			}
			al, isAlloc := core.Strip(call.Common().Args[len(call.Common().Args)-1]).(*ssa.Alloc)
			if mi, isMI := call.Common().Args[len(call.Common().Args)-1].(*ssa.MakeInterface); isMI {
				al, isAlloc = core.Strip(mi.X).(*ssa.Alloc)
			}
			if !hasItems || !isAlloc || al.Referrers() == nil {
				continue
			}
			var ts ssa.Value
			for _, ref := range *al.Referrers() {
				if fa, isFA := ref.(*ssa.FieldAddr); isFA {
					if _, fld, _, okf := core.FieldOf(fa); okf && fld == "timestamp" && fa.Referrers() != nil {
						for _, r2 := range *fa.Referrers() {
							if st, isSt := r2.(*ssa.Store); isSt && st.Addr == ssa.Value(fa) {
								ts = st.Val
							}
						}
					}
				}
			}
			if ts == nil {
				continue
			}
			n++
			fromItems := core.Mentions(ts, func(v ssa.Value) bool {
				lk, isLk := v.(*ssa.Lookup)
				return isLk && core.Mentions(lk.X, fieldNamed("items"))
			})
			r.Check(fromItems, "R19.5", fmt.Sprintf("%s: index entry deleted under the recorded time #%d", shortFn(fn), n), c.P.Pos(call.Pos()), "the timestamp of the deleted key is the value looked up in items",
				"the index entry is deleted under a key whose time is not the one recorded in items for this (account, nonce): the delete misses, the stale entry stays in the index and a later sweep measures the age of the replacement transaction with the old arrival time (a young transaction is evicted)")
		}
	}
	r.Floor("R19.5", "deletes on indices that record their key time", n, 2)
}

// c19RawInsert: R19.6.
func (c *Ctx) c19RawInsert() {
	r := c.R
	onField := func(v ssa.Value, field string) (ssa.Value, bool) {
		_, f, base, ok := core.FieldOf(v)
		if !ok || f != field {
			return nil, false
		}
		return base, true
	}
	// raw insertions: methods of a wrapper type that ReplaceOrInsert into recv.index and store recv.items[..] without
	// reading recv.items first
	raw := map[*ssa.Function]bool{}
	inlined := map[*ssa.Function]bool{}
	var fns []*ssa.Function
	for _, fn := range c.P.ModuleFuncs(true) {
		if core.PkgOf(fn) == "pkg/order/mempool" && len(fn.Blocks) > 0 {
			fns = append(fns, fn)
		}
	}
	for _, fn := range fns {
		if fn.Signature.Recv() == nil || len(fn.Params) == 0 {
			continue
		}
		ins, store, reads := false, false, false
		for _, call := range core.Calls(fn) {
			if o := core.CalleeObj(call); o != nil && o.Name() == "ReplaceOrInsert" {
				if b, ok := onField(core.Receiver(call), "index"); ok && core.Strip(b) == ssa.Value(fn.Params[0]) {
					ins = true
				}
			}
		}
		for _, b := range fn.Blocks {
			for _, in := range b.Instrs {
				switch x := in.(type) {
				case *ssa.MapUpdate:
					if bb, ok := onField(x.Map, "items"); ok && core.Strip(bb) == ssa.Value(fn.Params[0]) {
						store = true
					}
				case *ssa.Lookup:
					if bb, ok := onField(x.X, "items"); ok && core.Strip(bb) == ssa.Value(fn.Params[0]) {
						reads = true
					}
				}
			}
		}
		if ins && store && !reads {
			raw[fn] = true
		} else if ins && store {
			inlined[fn] = true
		}
	}
	n := 0
	for _, fn := range fns {
		for _, call := range core.Calls(fn) {
			g := core.StaticCallee(call)
			var recv ssa.Value
			what := ""
			switch {
			case g != nil && raw[g]:
				recv = core.Receiver(call)
				what = g.Name()
			case inlined[fn]:
				// the insertion written out in a method that also consults items: the same obligation, in place
				o := core.CalleeObj(call)
				if o == nil || o.Name() != "ReplaceOrInsert" {
					continue
				}
				b, ok := onField(core.Receiver(call), "index")
				if !ok || core.Strip(b) != ssa.Value(fn.Params[0]) {
					continue
				}
				recv = fn.Params[0]
				what = "index.ReplaceOrInsert"
			default:
				continue
			}
			n++
			// barrier: a Delete on the index of the same wrapper; cut: the 'absent' edge of a comma-ok lookup in its items
			sameWrapper := func(base ssa.Value) bool { return recv != nil && sameExpr(base, recv, 0) }
			absent := condEdges(fn, func(f core.Fact, ifi *ssa.If) (bool, int) {
				if f.Kind != core.FBool {
					return false, 0
				}
				ex, ok := f.Subject.(*ssa.Extract)
				if !ok || ex.Index != 1 {
					return false, 0
				}
				lk, ok := ex.Tuple.(*ssa.Lookup)
				if !ok || !lk.CommaOk {
					return false, 0
				}
				if bb, ok := onField(lk.X, "items"); !ok || !sameWrapper(bb) {
					return false, 0
				}
				return true, 1 - holdsEdge(f)
			})
			rs := core.Reach([]core.Point{core.EntryOf(fn)}, func(in ssa.Instruction) bool {
				cc, ok := in.(ssa.CallInstruction)
				if !ok {
					return false
				}
				o := core.CalleeObj(cc)
				if o == nil || o.Name() != "Delete" {
					return false
				}
				bb, ok := onField(core.Receiver(cc), "index")
				return ok && sameWrapper(bb)
			}, core.CutOf(absent))
			key := fmt.Sprintf("%s: %s only after the slot's old entry is gone", shortFn(fn), what)
			if rs.Has(call) {
				r.Bad("R19.6", key, c.P.Pos(call.Pos()), "the raw insertion "+what+" (ReplaceOrInsert under a key that contains the time, items[slot] = time) is reached without deleting the entry recorded for the slot and without knowing the slot is new; path (lines): "+rs.Witness(c.P, call)+": when the slot is occupied (a transaction superseded by one with the same account and nonce) the old (account, nonce, old time) entry stays in the index, and the sweep evicts the replacement by the superseded transaction's age")
			} else {
				r.OK("R19.6", key, c.P.Pos(call.Pos()), "every path to the call deletes the recorded index entry or found the slot absent")
			}
		}
	}
	r.Floor("R19.6", "insertions into timed indices with a side table (call sites of raw insertions, or written out)", n, 2)
}
