// Package rules holds the rule instances per property.
package rules

import "bxhlint/core"

// Ctx is what a property's rule set receives.
type Ctx struct {
	P    *core.Prog
	R    *core.Report
	Tier string
	bvm  *core.BVM
	cm   *contractsModel
	lm   *ledgerModel
}

// BVM builds the dispatch model once per run.
func (c *Ctx) BVM() *core.BVM {
	if c.bvm == nil {
		m, err := core.BuildBVM(c.P)
		if err != nil {
			c.R.Unknown("E2", "bvm-model", "", err.Error())
			m = &core.BVM{P: c.P, ByType: map[string]*core.Contract{}, ByAddr: map[string]*core.Contract{}}
		}
		for _, pr := range m.Problems {
			c.R.Unknown("E2", "bvm-model:"+pr, "", pr)
		}
		c.bvm = m
	}
	return c.bvm
}

// Props maps property id to its rule set.
var Props = map[string]func(*Ctx){}
