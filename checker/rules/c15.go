package rules

import (
	"fmt"
	"go/token"
	"go/types"
	"os"
	"sort"
	"strings"

	"bxhlint/core"

	"golang.org/x/tools/go/ssa"
)

func init() { Props["C15"] = C15 }

const govPrefix = "internal/executor/contracts.(*Governance)."

// enumGuard checks, for every call site selected by sink (which returns the
// index of the tracked-object argument), that the enum field of that object
// cannot hold one of `forbidden` when the call executes. Entry states of
// helper functions are the join over their module call sites.
type enumGuard struct {
	c         *Ctx
	flow      *core.EnumFlow
	funcs     []*ssa.Function
	forbidden []string
	postMemo  map[string]postInfo
	entryMemo map[string]core.EnumSet
	visiting  map[string]bool
}

type postInfo struct {
	set  core.EnumSet
	conv core.Conv
	idx  int
	ok   bool
}

func newEnumGuard(c *Ctx, field string, universe []string, funcs []*ssa.Function, pure map[string]bool) *enumGuard {
	g := &enumGuard{c: c, funcs: funcs, postMemo: map[string]postInfo{}, entryMemo: map[string]core.EnumSet{}, visiting: map[string]bool{}}
	g.flow = &core.EnumFlow{Field: field, Universe: universe, PureCalls: pure}
	g.flow.Post = g.post
	return g
}

// post: when callee returns success, which values may the field of its
// argIdx-th argument hold?
func (g *enumGuard) post(callee *ssa.Function, argIdx int) (core.EnumSet, core.Conv, int, bool) {
	key := fmt.Sprintf("%s#%d", core.FnName(callee), argIdx)
	if p, ok := g.postMemo[key]; ok {
		return p.set, p.conv, p.idx, p.ok
	}
	g.postMemo[key] = postInfo{} // recursion guard: unknown
	if callee.Blocks == nil || argIdx >= len(callee.Params) || !g.c.P.InModule(callee) {
		return core.EnumSet{}, 0, 0, false
	}
	conv, idx, ok := core.ResultConv(callee.Signature)
	if !ok {
		return core.EnumSet{}, 0, 0, false
	}
	res := g.flow.Run(callee, callee.Params[argIdx], core.TopSet())
	out := core.EnumSet{Vals: map[string]bool{}}
	any := false
	for _, r := range core.Returns(callee) {
		if len(r.Results) <= idx || !core.MayBeSuccess(callee, r, idx, conv) {
			continue
		}
		any = true
		s := res.At(r)
		if s.Top {
			out = core.TopSet()
			break
		}
		for k := range s.Vals {
			out.Vals[k] = true
		}
	}
	p := postInfo{out, conv, idx, any && !out.Top}
	g.postMemo[key] = p
	return p.set, p.conv, p.idx, p.ok
}

// entryState: join of the states of the argument at all module call sites of fn.
func (g *enumGuard) entryState(fn *ssa.Function, paramIdx int) core.EnumSet {
	key := fmt.Sprintf("%s#%d", core.FnName(fn), paramIdx)
	if s, ok := g.entryMemo[key]; ok {
		return s
	}
	if g.visiting[key] {
		return core.EnumSet{Vals: map[string]bool{}}
	}
	g.visiting[key] = true
	defer delete(g.visiting, key)
	out := core.EnumSet{Vals: map[string]bool{}}
	n := 0
	for _, caller := range g.funcs {
		for _, call := range core.Calls(caller) {
			if core.StaticCallee(call) != fn {
				continue
			}
			n++
			args := call.Common().Args
			if paramIdx >= len(args) {
				out = core.TopSet()
				continue
			}
			st := g.stateAt(caller, args[paramIdx], call)
			if st.Top {
				out = core.TopSet()
			} else if !out.Top {
				for k := range st.Vals {
					out.Vals[k] = true
				}
			}
		}
	}
	if n == 0 || fn.Object() != nil && fn.Object().Exported() {
		// dispatchable / externally callable: anything
		out = core.TopSet()
	}
	g.entryMemo[key] = out
	return out
}

// stateAt: state of base's field just before instruction at in fn.
func (g *enumGuard) stateAt(fn *ssa.Function, base ssa.Value, at ssa.Instruction) core.EnumSet {
	entry := core.TopSet()
	sb := core.Strip(base)
	for i, p := range fn.Params {
		if ssa.Value(p) == sb {
			entry = g.entryState(fn, i)
		}
	}
	// the object travels in a context struct that fn receives (by pointer or by value): r.p of proposalRound{g, p}
	if pi, fld, ok := ctxFieldAccess(fn, base); ok {
		entry = g.entryStateCtx(fn, pi, fld)
	}
	res := g.flow.Run(fn, base, entry)
	return res.At(at)
}

// unconditionalHelper lifts pred over one level of helper calls: a static call of a function of package pkg every
// path through which passes an instruction satisfying pred (concludeProposal(p, reason, ok): the status change is
// what the helper is for) counts like the instruction itself; a helper that only may do it (countVote) does not.
func unconditionalHelper(pred InstrPred, pkg string) InstrPred {
	memo := map[*ssa.Function]bool{}
	return func(in ssa.Instruction) bool {
		if pred(in) {
			return true
		}
		call, ok := in.(ssa.CallInstruction)
		if !ok {
			return false
		}
		g := core.StaticCallee(call)
		if g == nil || len(g.Blocks) == 0 || core.PkgOf(g) != pkg {
			return false
		}
		if v, ok := memo[g]; ok {
			return v
		}
		res := len(sites(g, pred)) > 0
		if res {
			rs := core.Reach([]core.Point{core.EntryOf(g)}, pred, nil)
			for _, ret := range core.Returns(g) {
				if rs.Has(ret) {
					res = false
				}
			}
		}
		memo[g] = res
		return res
	}
}

// C15: proposals conclude only by their voting rule, once, one vote per admin.
func C15(c *Ctx) {
	r := c.R
	r.Rule("R15.1", "finality guard: every status change changeProposalStatus(p, X) (concluding, pausing or restoring) executes only where p.Status cannot already be APPROVED/REJECTED (enum-field refinement over comparisons of p.Status, lifted through helper pre/post-conditions to all module call sites).")
	r.Rule("R15.2", "vote admission: in Vote the role query about Caller() answered true before setVote; in setVote the tally increments and the BallotMap store lie behind electorate membership (addr == e.ID) and the ballot-absent test; the proposal is persisted only on the approve/reject branches.")
	r.Rule("R15.3", "special proposals: in countVote the decision function and both status changes are reachable only when !IsSpecial or IsSuperAdminVoted.")
	r.Rule("R15.4", "effect once: every handleResult call is preceded in the same entry by a concluding call; in dispatchable entries every direct concluding change is followed by handleResult before returning.")
	r.Rule("R15.5", "decision function: every MakeStrategyDecision call on a proposal passes (StrategyExpression, ApproveNum, AgainstNum, InitialElectorateNum, AvailableElectorateNum) of one and the same proposal, in this order.")
	r.Rule("R15.9", "availability is read before it is changed: in LogoutRole the IsAvailable() test that guards the subtraction of the elector from the open proposals (updateRoleRelatedProposalInfo(.., EventLogout)) is made on the role as it was before basicGovernance moved it to logouting - a record loaded after that call is never available, the subtraction never happens, and every open proposal keeps counting an elector who can no longer vote (a rejected logout then adds one more).")
	c.c15StaleAvailability()
	c.c15ElectorateUpdate()
	r.NotDecided = append(r.NotDecided, "semantics of govaluate strategy expressions; tally arithmetic over vote sequences; electorate snapshots; how often one lifecycle event adjusts AvailableElectorateNum over a submission / approval history (seed C15-r9)")

	m := c.Contracts()
	chg := c.fn("R15.1", govPrefix+"changeProposalStatus")
	if chg == nil {
		return
	}
	// universe of ProposalStatus
	var universe []string
	if pk := c.P.Package(core.ContractPkg); pk != nil {
		if tn := pk.Types.Scope().Lookup("ProposalStatus"); tn != nil {
			universe = core.UniverseOf(tn.Type())
		}
	}
	r.Floor("R15.1", "ProposalStatus constants", len(universe), 4)
	approved, rejected := constOfPkg(c, "APPROVED"), constOfPkg(c, "REJECTED")
	if approved == "" || rejected == "" {
		r.Anchor("R15.1", "contracts.APPROVED/REJECTED")
		return
	}
	pure := map[string]bool{}
	eg := newEnumGuard(c, "Status", universe, m.funcs, pure)
	eg.forbidden = []string{approved, rejected}

	nSites := 0
	for _, fn := range m.funcs {
		for _, call := range core.Calls(fn) {
			if core.StaticCallee(call) != chg {
				continue
			}
			args := call.Common().Args
			newSt := "?"
			if set := statusConsts(c, args[2], 0); len(set) > 0 {
				newSt = strings.Join(set, "|")
			}
			// every status change counts: a final state is neither re-entered nor left
			nSites++
			st := eg.stateAt(fn, args[1], call)
			key := fmt.Sprintf("%s: changeProposalStatus(->%s)", shortFn(fn), newSt)
			pos := c.P.Pos(call.Pos())
			if st.Intersects(approved, rejected) {
				r.Bad("R15.1", key, pos, fmt.Sprintf("proposal may already be concluded here: p.Status ∈ %s; no test against APPROVED/REJECTED dominates this status change (in %s or at its call sites), so an ended proposal can be concluded again", st, shortFn(fn)))
			} else {
				r.OK("R15.1", key, pos, "p.Status ∈ "+st.String()+" at the change")
			}
		}
	}
	r.Floor("R15.1", "status changes", nSites, 4)

	// R15.2
	vote := c.fn("R15.2", govPrefix+"Vote")
	setVote := c.fn("R15.2", govPrefix+"setVote")
	if vote != nil && setVote != nil {
		es := m.roleAnswerEdges(vote, isCallerID)
		n := c.behindEdges("R15.2", "Vote", vote, es, c.callReaching(setVote), "role query IsAnyAvailableAdmin(Caller()) == true", "setVote")
		r.Floor("R15.2", "setVote calls in Vote", n, 1)

		// The obligations are evaluated where the writes are: in setVote, or in a helper of the contract that setVote
		// hands the voter address / the ballot value to (extract-method); a helper call that itself lies behind the
		// edge in setVote discharges the helper's sites.
		type voteEnv struct {
			fn            *ssa.Function
			addr, approve ssa.Value
			// elector: a *Role parameter that receives the elector whose ID was found equal to the voter's address;
			// its ID field then stands for the address
			elector ssa.Value
		}
		isAddrIn := func(e voteEnv) func(ssa.Value) bool {
			return func(v ssa.Value) bool {
				if e.addr != nil && v == e.addr {
					return true
				}
				if e.elector != nil {
					for _, o := range append(core.Origins(v), v) {
						if _, f, base, ok := core.FieldOf(o); ok && f == "ID" && core.Strip(base) == e.elector {
							return true
						}
					}
				}
				return false
			}
		}
		mkMember := func(e voteEnv) core.EdgeSet {
			if e.addr == nil {
				return core.EdgeSet{}
			}
			es := core.EqualityEdges(e.fn, func(v ssa.Value) bool { return v == e.addr }, fieldLoad("Role", "ID"), true)
			// a lookup helper `e, found := findElector(list, addr)`: found is true only behind addr == e.ID inside the helper
			for _, call := range core.Calls(e.fn) {
				cl, isCall := call.(*ssa.Call)
				h := core.StaticCallee(call)
				if !isCall || h == nil || len(h.Blocks) == 0 || core.PkgOf(h) != core.PkgOf(e.fn) {
					continue
				}
				res := h.Signature.Results()
				bi := res.Len() - 1
				if res.Len() < 2 || res.At(bi).Type().String() != "bool" {
					continue
				}
				ai := -1
				for i, a := range cl.Call.Args {
					if core.Strip(a) == e.addr && i < len(h.Params) {
						ai = i
					}
				}
				if ai < 0 {
					continue
				}
				hp := ssa.Value(h.Params[ai])
				eq := core.EqualityEdges(h, func(v ssa.Value) bool { return v == hp }, fieldLoad("Role", "ID"), true)
				if eq.Len() == 0 {
					continue
				}
				rs := core.Reach([]core.Point{core.EntryOf(h)}, nil, core.CutOf(eq))
				guard := true
				for _, ret := range core.Returns(h) {
					if !rs.Has(ret) || len(ret.Results) <= bi {
						continue
					}
					for _, o := range core.RetOrigins(ret.Results[bi]) {
						if k, isC := core.Strip(o.V).(*ssa.Const); !isC || k.Value == nil || k.Value.ExactString() != "false" {
							guard = false
						}
					}
				}
				if !guard {
					continue
				}
				for b, mm := range condEdges(e.fn, func(f core.Fact, ifi *ssa.If) (bool, int) {
					if f.Kind != core.FBool || f.Field != "" {
						return false, 0
					}
					ex, ok := core.Strip(f.Subject).(*ssa.Extract)
					if !ok || ex.Index != bi || ex.Tuple != ssa.Value(cl) {
						return false, 0
					}
					return true, holdsEdge(f)
				}) {
					for i := range mm {
						es.Add(b, i)
					}
				}
			}
			return es
		}
		mkAbsent := func(e voteEnv) core.EdgeSet {
			// ballot absent: `_, ok := p.BallotMap[addr]; ok` false edge
			return condEdges(e.fn, func(f core.Fact, ifi *ssa.If) (bool, int) {
				if f.Kind != core.FBool || (e.addr == nil && e.elector == nil) {
					return false, 0
				}
				ex, ok := f.Subject.(*ssa.Extract)
				if !ok || ex.Index != 1 {
					return false, 0
				}
				lk, ok := ex.Tuple.(*ssa.Lookup)
				if !ok || !core.Mentions(lk.X, fieldLoad("Proposal", "BallotMap")) || !(core.Direct(func(v ssa.Value) bool { return e.addr != nil && v == e.addr })(lk.Index) || isAddrIn(e)(core.Strip(lk.Index))) {
					return false, 0
				}
				return true, 1 - holdsEdge(f)
			})
		}
		mkValid := func(e voteEnv) core.EdgeSet {
			if e.approve == nil {
				return core.EdgeSet{}
			}
			return core.EqualityEdges(e.fn, func(v ssa.Value) bool { return v == e.approve },
				func(v ssa.Value) bool { _, ok := core.ConstString(v); return ok }, false)
		}
		isTally := or(storesToField("Proposal", "ApproveNum"), storesToField("Proposal", "AgainstNum"),
			func(in ssa.Instruction) bool {
				mu, ok := in.(*ssa.MapUpdate)
				return ok && core.Mentions(mu.Map, fieldLoad("Proposal", "BallotMap"))
			})
		isPersist := func(in ssa.Instruction) bool {
			call, ok := in.(ssa.CallInstruction)
			return ok && core.IsStubCall("SetObject")(valueOf(call))
		}
		top := voteEnv{fn: setVote, addr: setVote.Params[2], approve: setVote.Params[3]}
		checkVote := func(mk func(voteEnv) core.EdgeSet, isSite InstrPred, edgeName, siteName string) int {
			n := c.behindEdges("R15.2", "setVote", setVote, mk(top), isSite, edgeName, siteName)
			outer := core.Reach([]core.Point{core.EntryOf(setVote)}, nil, core.CutOf(mk(top)))
			for _, call := range core.Calls(setVote) {
				h := core.StaticCallee(call)
				if h == nil || h == setVote || len(h.Blocks) == 0 || core.PkgOf(h) != core.PkgOf(setVote) || len(sites(h, isSite)) == 0 {
					continue
				}
				if !outer.Has(call) {
					n += len(sites(h, isSite))
					c.R.OK("R15.2", "setVote: "+h.Name()+" behind "+edgeName, c.P.Pos(call.Pos()), "the helper holding the "+siteName+" is only called across the edge")
					continue
				}
				env := voteEnv{fn: h}
				for ai, a := range call.Common().Args {
					if ai >= len(h.Params) {
						continue
					}
					if core.Strip(a) == top.addr {
						env.addr = h.Params[ai]
					}
					if core.Strip(a) == top.approve {
						env.approve = h.Params[ai]
					}
					// the matched elector: an element whose ID the caller compared with the voter's address
					if strings.HasSuffix(a.Type().String(), "contracts.Role") {
						matched := false
						for _, b := range setVote.Blocks {
							if ifi := core.IfOf(b); ifi != nil {
								if bo, ok := ifi.Cond.(*ssa.BinOp); ok && (bo.Op == token.EQL || bo.Op == token.NEQ) {
									for _, side := range [][2]ssa.Value{{bo.X, bo.Y}, {bo.Y, bo.X}} {
										if core.Strip(side[0]) == top.addr {
											if _, f, base, ok := core.FieldOf(side[1]); ok && f == "ID" && sameValue(base, a) {
												matched = true
											}
										}
									}
								}
							}
						}
						if matched {
							env.elector = h.Params[ai]
						}
					}
				}
				n += c.behindEdges("R15.2", h.Name(), h, mk(env), isSite, edgeName, siteName)
			}
			return n
		}
		n1 := checkVote(mkMember, isTally, "electorate membership (addr == e.ID)", "tally/ballot write")
		n2 := checkVote(mkAbsent, isTally, "ballot-absent test (BallotMap[addr] missing)", "tally/ballot write")
		r.Floor("R15.2", "tally/ballot writes in setVote", n1+n2, 6)
		n3 := checkVote(mkValid, isPersist, "ballot value == approve/reject", "SetObject(proposal)")
		r.Floor("R15.2", "persist sites in setVote", n3, 1)
	}

	// R15.3
	if cv := c.fn("R15.3", govPrefix+"countVote"); cv != nil {
		es := condEdges(cv, func(f core.Fact, ifi *ssa.If) (bool, int) {
			if f.Kind != core.FBool {
				return false, 0
			}
			switch f.Field {
			case "IsSpecial":
				return true, 1 - holdsEdge(f) // not special
			case "IsSuperAdminVoted":
				return true, holdsEdge(f) // super admin voted
			}
			return false, 0
		})
		n := c.behindEdges("R15.3", "countVote", cv, es, or(c.throughHelpers(callTo("internal/repo.MakeStrategyDecision")), c.callReaching(chg)),
			"!IsSpecial or IsSuperAdminVoted", "decision / status change")
		r.Floor("R15.3", "decision and status-change sites in countVote", n, 2)
	}

	// R15.4
	handle := c.fn("R15.4", govPrefix+"handleResult")
	if handle != nil {
		concluding := c.callReaching(chg)
		nh := 0
		for _, fn := range m.funcs {
			if fn == handle || len(sites(fn, func(in ssa.Instruction) bool {
				call, ok := in.(ssa.CallInstruction)
				return ok && core.StaticCallee(call) == handle
			})) == 0 {
				continue
			}
			nh += c.mustPrecede("R15.4", shortFn(fn), fn, concluding, func(in ssa.Instruction) bool {
				call, ok := in.(ssa.CallInstruction)
				return ok && core.StaticCallee(call) == handle
			}, "a concluding call (reaching changeProposalStatus)", "handleResult")
		}
		r.Floor("R15.4", "handleResult call sites", nh, 4)
		nf := 0
		for _, ct := range m.bvm.Contracts {
			if ct.Name != "Governance" {
				continue
			}
			for _, e := range ct.Entries {
				if !e.Own || e.Fn == nil {
					continue
				}
				nf += c.mustFollow("R15.4", e.Key(), e.Fn, unconditionalHelper(func(in ssa.Instruction) bool {
					call, ok := in.(ssa.CallInstruction)
					if !ok || core.StaticCallee(call) != chg {
						return false
					}
					// the new status is APPROVED / REJECTED: a constant, a phi of constants, or the result of a
					// helper that returns only these (decidedStatus(isApprove))
					set := statusConsts(c, call.Common().Args[2], 0)
					if len(set) == 0 {
						return false
					}
					for _, s := range set {
						if s != approved && s != rejected {
							return false
						}
					}
					return true
				}, core.PkgOf(e.Fn)), func(in ssa.Instruction) bool {
					call, ok := in.(ssa.CallInstruction)
					return ok && core.StaticCallee(call) == handle
				}, "concluding status change", "handleResult")
			}
		}
		r.Floor("R15.4", "direct concluding changes in entries", nf, 1)
	}

	// R15.7 electorate changes reach every live proposal
	r.Rule("R15.7", "electorate changes reach every live proposal: in UpdateAvailableElectorateNum the store of the new AvailableElectorateNum is reachable with every non-final status (all ProposalStatus constants except APPROVED / REJECTED; enum refinement over the comparisons of p.Status on the way): a paused proposal that misses the update is decided against a stale electorate when it is restored.")
	r.Rule("R15.8", "who counts as available: the status sets behind Role.IsAvailable() and Dapp.IsAvailable() (roleAvailableMap, dappAvailableMap) stay within the reference frozen in the checker (available, freezing [, transferring]); a status added to such a set lets objects act that the lifecycle has taken out of service (an admin with a pending logout keeps voting and counting in the electorate).")
	c.c15Availability()
	if up := c.fn("R15.7", govPrefix+"UpdateAvailableElectorateNum"); up != nil {
		nUp := 0
		isUpd := storesToField("Proposal", "AvailableElectorateNum")
		type updAt struct {
			in   ssa.Instruction
			base ssa.Value
		}
		var ups []updAt
		for _, in := range sites(up, isUpd) {
			_, _, base, _ := core.FieldOf(in.(*ssa.Store).Addr)
			ups = append(ups, updAt{in, base})
		}
		// or in a helper that receives the proposal
		for _, call := range core.Calls(up) {
			g := core.StaticCallee(call)
			if g == nil || len(g.Blocks) == 0 || core.PkgOf(g) != core.PkgOf(up) {
				continue
			}
			for _, in := range sites(g, isUpd) {
				_, _, base, _ := core.FieldOf(in.(*ssa.Store).Addr)
				for i, gp := range g.Params {
					if core.Strip(base) == ssa.Value(gp) && i < len(call.Common().Args) {
						ups = append(ups, updAt{call, call.Common().Args[i]})
					}
				}
			}
		}
		for _, u := range ups {
			in := u.in
			nUp++
			set := eg.stateAt(up, u.base, in)
			var missing []string
			for _, st := range universe {
				if st == approved || st == rejected {
					continue
				}
				if !set.Intersects(st) {
					missing = append(missing, st)
				}
			}
			r.Check(len(missing) == 0, "R15.7", "UpdateAvailableElectorateNum: update reaches every non-final status", c.P.Pos(in.Pos()), "p.Status ∈ "+set.String()+" at the store of AvailableElectorateNum",
				"the store of the new electorate size is unreachable for proposals in status "+strings.Join(missing, ",")+" (p.Status ∈ "+set.String()+" here): such a proposal keeps the old AvailableElectorateNum and threshold and is later concluded - or never concluded - against an electorate that no longer exists")
		}
		r.Floor("R15.7", "AvailableElectorateNum stores in UpdateAvailableElectorateNum", nUp, 1)
	}

	// R15.6 electorate snapshot
	r.Rule("R15.6", "electorate snapshot: the electorate recorded in a new proposal is the first result of getElectorate, and the list getElectorate returns is built only from elements appended behind an IsAvailable() test (admins unavailable at creation are not electors).")
	if ge := c.fn("R15.6", govPrefix+"getElectorate"); ge != nil {
		availEdges := condEdges(ge, func(f core.Fact, ifi *ssa.If) (bool, int) {
			if f.Kind != core.FBool {
				return false, 0
			}
			if call, ok := f.Subject.(*ssa.Call); ok {
				if o := core.CalleeObj(call); o != nil && o.Name() == "IsAvailable" {
					return true, holdsEdge(f)
				}
			}
			return false, 0
		})
		cut := core.CutOf(availEdges)
		rs := core.Reach([]core.Point{core.EntryOf(ge)}, nil, cut)
		nret := 0
		for _, ret := range core.Returns(ge) {
			if len(ret.Results) < 1 {
				continue
			}
			// only the success return (error result nil) matters
			if !core.MayBeSuccess(ge, ret, len(ret.Results)-1, core.ConvErrNil) {
				continue
			}
			nret++
			bad := ""
			seen := map[ssa.Value]bool{}
			var walk func(v ssa.Value)
			walk = func(v ssa.Value) {
				v = core.Strip(v)
				if v == nil || seen[v] {
					return
				}
				seen[v] = true
				switch x := v.(type) {
				case *ssa.Phi:
					for _, e := range x.Edges {
						walk(e)
					}
				case *ssa.Const:
					// nil / empty list
				case *ssa.MakeSlice:
				case *ssa.Call:
					if b, ok := x.Call.Value.(*ssa.Builtin); ok && b.Name() == "append" {
						if rs.Has(x) {
							bad = "an element is appended at " + c.P.Pos(x.Pos()) + " without a preceding IsAvailable() test"
						}
						walk(x.Call.Args[0])
						return
					}
					bad = "the returned list comes from " + core.CalleeName(x) + " (not filtered by availability)"
				default:
					bad = fmt.Sprintf("the returned list is %s at %s, not a list built by availability-guarded appends", v.Name(), c.P.Pos(v.Pos()))
				}
			}
			walk(ret.Results[0])
			r.Check(bad == "", "R15.6", "getElectorate: returned electorate", c.P.Pos(ret.Pos()), "list built only by appends behind IsAvailable()",
				"electorate snapshot includes admins that were not available when the proposal was created: "+bad)
		}
		r.Floor("R15.6", "success returns of getElectorate", nret, 1)
		if sp := c.fn("R15.6", govPrefix+"SubmitProposal"); sp != nil {
			n := 0
			for _, in := range sites(sp, storesToField("Proposal", "ElectorateList")) {
				n++
				st := in.(*ssa.Store)
				call, idx := core.CallOf(st.Val)
				ok := call != nil && core.StaticCallee(call) == ge && idx == 0
				if !ok {
					// the electorate read by a helper that hands its results back in a struct (info.electorate)
					if vals, isRes := core.ReturnedFieldValues(st.Val); isRes && len(vals) > 0 {
						ok = true
						for _, w := range vals {
							c2, i2 := core.CallOf(w)
							if c2 == nil || core.StaticCallee(c2) != ge || i2 != 0 {
								ok = false
							}
						}
					}
				}
				r.Check(ok, "R15.6", "SubmitProposal: ElectorateList", c.P.Pos(in.Pos()), "ElectorateList = getElectorate() result 0",
					"the proposal's ElectorateList is not the list returned by getElectorate")
			}
			r.Floor("R15.6", "ElectorateList stores in SubmitProposal", n, 1)
		}
	}

	// R15.5
	nd := 0
	want := []string{"StrategyExpression", "ApproveNum", "AgainstNum", "InitialElectorateNum", "AvailableElectorateNum"}
	for _, fn := range m.funcs {
		for _, call := range core.Calls(fn) {
			if !core.NameIs(call, "internal/repo.MakeStrategyDecision") {
				continue
			}
			args := call.Common().Args
			_, f0, base0, ok0 := core.FieldOf(args[0])
			if !ok0 || f0 != "StrategyExpression" {
				continue // not a call on a proposal's own fields (threshold helper)
			}
			nd++
			good := true
			var got []string
			for i, a := range args {
				_, f, b, ok := core.FieldOf(a)
				got = append(got, f)
				if !ok || f != want[i] || core.Strip(b) != core.Strip(base0) {
					good = false
				}
			}
			key := shortFn(fn) + ": MakeStrategyDecision"
			r.Check(good, "R15.5", key, c.P.Pos(call.Pos()), "arguments are ("+strings.Join(want, ", ")+") of one proposal",
				"decision function is not fed the proposal's own tally fields in order: got ("+strings.Join(got, ", ")+")")
		}
	}
	r.Floor("R15.5", "decision call sites", nd, 1) // 2 on the pinned tree; a shared decide() helper merges them
}

func shortFn(fn *ssa.Function) string {
	s := core.FnName(fn)
	s = strings.ReplaceAll(s, "internal/executor/contracts.", "")
	s = strings.ReplaceAll(s, "internal/executor.", "")
	return s
}

func valueOf(c ssa.CallInstruction) ssa.Value {
	if v, ok := c.(ssa.Value); ok {
		return v
	}
	return nil
}

// constOfPkg returns the value of a string constant of the contracts package.
func constOfPkg(c *Ctx, name string) string {
	pk := c.P.Package(core.ContractPkg)
	if pk == nil {
		return ""
	}
	k, ok := pk.Types.Scope().Lookup(name).(*types.Const)
	if !ok {
		return ""
	}
	return strings.Trim(k.Val().ExactString(), "\"")
}

// statusConsts: the constants a status-typed value may be - a constant, a phi of constants, or the result of a
// module function all of whose returns are such values. Empty when any origin is not a constant.
func statusConsts(c *Ctx, v ssa.Value, depth int) []string {
	set := map[string]bool{}
	ok := true
	for _, o := range core.RetOrigins(v) {
		if s, isC := core.ConstString(o.V); isC {
			set[s] = true
			continue
		}
		if call, _ := core.CallOf(o.V); call != nil && depth < 2 {
			if g := core.StaticCallee(call); g != nil && len(g.Blocks) > 0 && c.P.InModule(g) && g.Signature.Results().Len() == 1 {
				sub := true
				for _, ret := range core.Returns(g) {
					rs := statusConsts(c, ret.Results[0], depth+1)
					if len(rs) == 0 {
						sub = false
					}
					for _, x := range rs {
						set[x] = true
					}
				}
				if sub {
					continue
				}
			}
		}
		ok = false
	}
	if !ok {
		return nil
	}
	var out []string
	for k := range set {
		out = append(out, k)
	}
	sort.Strings(out)
	return out
}

// availabilityReference: the statuses in which an object of the repository's own governance tables counts as
// available (confirmed by reading: a pending freeze leaves the object usable, a pending logout / pause / a frozen or
// forbidden object does not). A status added to one of these sets widens who may act (an admin whose logout is
// pending keeps voting) and is reported; a removed status is not.
var availabilityReference = map[string]string{
	"roleAvailableMap": "available,freezing",
	"dappAvailableMap": "available,freezing,transferring",
}

// c15Availability: R15.8.
func (c *Ctx) c15Availability() {
	r := c.R
	sets := map[string]map[string]bool{}
	var inits []*ssa.Function
	if pk := c.P.Package(core.ContractPkg); pk != nil {
		if sp := c.P.SSA.Package(pk.Types); sp != nil {
			if f := sp.Func("init"); f != nil {
				inits = append(inits, f)
			}
		}
	}
	for _, fn := range inits {
		for _, b := range fn.Blocks {
			for _, in := range b.Instrs {
				st, ok := in.(*ssa.Store)
				if !ok {
					continue
				}
				g, isG := st.Addr.(*ssa.Global)
				if !isG || availabilityReference[g.Name()] == "" || st.Val.Referrers() == nil {
					continue
				}
				sets[g.Name()] = map[string]bool{}
				for _, ref := range *st.Val.Referrers() {
					if mu, isMu := ref.(*ssa.MapUpdate); isMu && mu.Map == st.Val {
						if s, isC := core.ConstString(mu.Key); isC {
							sets[g.Name()][s] = true
						}
					}
				}
			}
		}
	}
	n := 0
	var names []string
	for k := range availabilityReference {
		names = append(names, k)
	}
	sort.Strings(names)
	for _, name := range names {
		set := sets[name]
		if set == nil {
			continue
		}
		n++
		allowed := map[string]bool{}
		for _, s := range strings.Split(availabilityReference[name], ",") {
			allowed[s] = true
		}
		var extra, have []string
		for s := range set {
			have = append(have, s)
			if !allowed[s] {
				extra = append(extra, s)
			}
		}
		sort.Strings(have)
		sort.Strings(extra)
		r.Check(len(extra) == 0, "R15.8", name+": statuses that count as available stay within the reference", "", "{"+strings.Join(have, ",")+"} within {"+availabilityReference[name]+"}",
			"the status set behind IsAvailable() gained "+strings.Join(extra, ",")+": objects in that status - e.g. an administrator whose logout proposal is pending - count as available again: they vote, stay in the electorate and keep thresholds from being reached")
	}
	r.Floor("R15.8", "availability sets found", n, 2)
}

// c15StaleAvailability: R15.9.
func (c *Ctx) c15StaleAvailability() {
	r := c.R
	fn := c.fn("R15.9", "internal/executor/contracts.(*RoleManager).LogoutRole")
	if fn == nil {
		return
	}
	var bg ssa.Instruction
	for _, call := range core.Calls(fn) {
		if strings.HasSuffix(core.CalleeName(call), "RoleManager).basicGovernance") {
			bg = call
		}
	}
	isDec := c.throughHelpers(func(in ssa.Instruction) bool {
		call, ok := in.(ssa.CallInstruction)
		return ok && strings.HasSuffix(core.CalleeName(call), "RoleManager).updateRoleRelatedProposalInfo")
	})
	decs := sites(fn, isDec)
	r.Floor("R15.9", "electorate subtractions in LogoutRole", len(decs), 1)
	if bg == nil || len(decs) == 0 {
		return
	}
	after := core.Reach([]core.Point{core.After(bg)}, nil, nil)
	// the availability tests in front of the subtraction and the record each of them reads
	n := 0
	for _, b := range fn.Blocks {
		ifi := core.IfOf(b)
		if ifi == nil {
			continue
		}
		for _, ef := range core.CondFactsOf(ifi) {
			cc, ok := core.Strip(ef.Fact.Subject).(*ssa.Call)
			if !ok || !strings.HasSuffix(core.CalleeName(cc), "Role).IsAvailable") || len(cc.Call.Args) == 0 {
				continue
			}
			n++
			rec := core.Strip(cc.Call.Args[0])
			// where the record was filled: GetObject(key, rec)
			stale := ""
			for _, call := range core.Calls(fn) {
				if !core.IsStubCall("GetObject")(valueOf(call)) {
					continue
				}
				args := call.Common().Args
				if len(args) == 0 || !core.Mentions(args[len(args)-1], func(w ssa.Value) bool { return w == rec }) {
					continue
				}
				if after.Has(call) {
					stale = c.P.Pos(call.Pos())
				}
			}
			key := "LogoutRole: availability read on the role as it was before the logout"
			if stale != "" && after.Has(cc) {
				r.Bad("R15.9", key, c.P.Pos(cc.Pos()), "the role tested with IsAvailable() is loaded at "+stale+", after basicGovernance has stored it as logouting: the test is always false, so a logging-out admin is never subtracted from the available electorate of the open proposals")
			} else {
				r.OK("R15.9", key, c.P.Pos(cc.Pos()), "the tested record was read before the status change")
			}
		}
	}
	if n == 0 {
		// a value computed before the status change (wasAvailable) guards the subtraction: fine when it is computed before
		r.OK("R15.9", "LogoutRole: availability read on the role as it was before the logout", c.P.Pos(fn.Pos()), "no IsAvailable() test on a record loaded after the status change")
	}
}

// ctxFieldAccess: v is field fld of parameter pi of fn, where that parameter is a module struct (a context struct /
// parameter object), passed by pointer or by value.
func ctxFieldAccess(fn *ssa.Function, v ssa.Value) (pi, fld int, ok bool) {
	var holder ssa.Value
	switch x := v.(type) {
	case *ssa.Field:
		holder, fld = x.X, x.Field
	case *ssa.UnOp:
		fa, isFA := x.X.(*ssa.FieldAddr)
		if x.Op != token.MUL || !isFA {
			return 0, 0, false
		}
		holder, fld = fa.X, fa.Field
		// a value parameter spilled into a local: *(&local.f) with local = param
		if al, isAl := holder.(*ssa.Alloc); isAl {
			for _, sv := range core.StoresInto(al) {
				if _, isP := sv.(*ssa.Parameter); isP {
					holder = sv
				}
			}
		}
	default:
		return 0, 0, false
	}
	par, isPar := holder.(*ssa.Parameter)
	if !isPar || par.Parent() != fn {
		return 0, 0, false
	}
	t := par.Type()
	if pt, isPtr := t.Underlying().(*types.Pointer); isPtr {
		t = pt.Elem()
	}
	named, isNamed := t.(*types.Named)
	if !isNamed || named.Obj().Pkg() == nil || !core.InModulePath(named.Obj().Pkg().Path()) || named.Obj().Exported() {
		return 0, 0, false
	}
	if _, isStruct := named.Underlying().(*types.Struct); !isStruct {
		return 0, 0, false
	}
	for i, q := range fn.Params {
		if q == par {
			return i, fld, true
		}
	}
	return 0, 0, false
}

// entryStateCtx: join, over the call sites of fn, of the state of the object stored in field fld of the context
// struct handed over as argument pi.
func (g *enumGuard) entryStateCtx(fn *ssa.Function, pi, fld int) core.EnumSet {
	key := fmt.Sprintf("%s#%d.%d", core.FnName(fn), pi, fld)
	if s, ok := g.entryMemo[key]; ok {
		return s
	}
	if g.visiting[key] {
		return core.EnumSet{Vals: map[string]bool{}}
	}
	g.visiting[key] = true
	defer delete(g.visiting, key)
	out := core.EnumSet{Vals: map[string]bool{}}
	n := 0
	for _, site := range core.StaticSitesOf(fn) {
		n++
		args := site.Common().Args
		if pi >= len(args) {
			out = core.TopSet()
			break
		}
		// the struct: an alloc (pointer passed) or a load of one (value passed)
		var al *ssa.Alloc
		switch a := args[pi].(type) {
		case *ssa.Alloc:
			al = a
		case *ssa.UnOp:
			al, _ = a.X.(*ssa.Alloc)
		}
		var val ssa.Value
		if al != nil {
			for _, rf := range *al.Referrers() {
				if fa, ok := rf.(*ssa.FieldAddr); ok && fa.X == ssa.Value(al) && fa.Field == fld {
					for _, rr := range *fa.Referrers() {
						if st, ok := rr.(*ssa.Store); ok && st.Addr == ssa.Value(fa) {
							val = st.Val
						}
					}
				}
			}
		}
		caller := site.Parent()
		if val == nil || caller == nil {
			// handed on from the caller's own context parameter
			if p2, f2, ok := ctxParamPassThrough(caller, args[pi]); ok {
				_ = f2
				st := g.entryStateCtx(caller, p2, fld)
				if st.Top {
					out = core.TopSet()
					break
				}
				for k := range st.Vals {
					out.Vals[k] = true
				}
				continue
			}
			out = core.TopSet()
			break
		}
		st := g.stateAt(caller, val, site)
		if os.Getenv("BXH_DEBUG") != "" {
			fmt.Fprintf(os.Stderr, "entryStateCtx %s <- %s at %s: top=%v vals=%v\n", core.FnName(fn), core.FnName(caller), g.c.P.Pos(site.Pos()), st.Top, st.Vals)
		}
		if st.Top {
			out = core.TopSet()
			break
		}
		for k := range st.Vals {
			out.Vals[k] = true
		}
	}
	if n == 0 {
		out = core.TopSet()
	}
	g.entryMemo[key] = out
	return out
}

// ctxParamPassThrough: v is (a load of) a parameter of fn itself (the context handed on to a further helper).
func ctxParamPassThrough(fn *ssa.Function, v ssa.Value) (int, int, bool) {
	if fn == nil {
		return 0, 0, false
	}
	v = core.Strip(v)
	for i, q := range fn.Params {
		if ssa.Value(q) == v {
			return i, 0, true
		}
	}
	return 0, 0, false
}
