#!/bin/bash
# usage: check.sh <property id> [quick|thorough]
# Builds the checker if needed and decides the property on /repo's current tree.
set -u
cd "$(dirname "$0")"
export GOFLAGS=-mod=mod GOPROXY=off GOSUMDB=off GOTOOLCHAIN=local
unset GOWORK
PROP="$1"; TIER="${2:-${VERIF_TIER:-quick}}"
if [ ! -x bin/bxhlint ] || [ -n "$(find checker -name '*.go' -newer bin/bxhlint 2>/dev/null | head -1)" ]; then
  mkdir -p bin
  (cd checker && go build -o ../bin/bxhlint ./cmd/bxhlint) || { echo "cannot build checker"; exit 2; }
fi
exec ./bin/bxhlint -repo "${BXH_REPO:-/repo}" -verif "$(pwd)" -prop "$PROP" -tier "$TIER"
