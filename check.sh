#!/bin/bash
# usage: check.sh <property id> [quick|thorough]
# Builds the checker if needed and decides the property on /repo's current tree.
# thorough = quick + positive controls (tools/poscontrols.sh): every stored seeded change that this property's
# rules are known to report is applied to a scratch copy of the current tree and must be reported again.
set -u
cd "$(dirname "$0")"
export GOFLAGS=-mod=mod GOPROXY=off GOSUMDB=off GOTOOLCHAIN=local
unset GOWORK
PROP="$1"; TIER="${2:-${VERIF_TIER:-quick}}"
REPO="${BXH_REPO:-/repo}"
if [ ! -x bin/bxhlint ] || [ -n "$(find checker -name '*.go' -newer bin/bxhlint 2>/dev/null | head -1)" ]; then
  mkdir -p bin
  (cd checker && go build -o ../bin/bxhlint ./cmd/bxhlint) || { echo "cannot build checker"; exit 2; }
fi
if [ "$TIER" != "thorough" ]; then
  exec ./bin/bxhlint -repo "$REPO" -verif "$(pwd)" -prop "$PROP" -tier "$TIER"
fi
./bin/bxhlint -repo "$REPO" -verif "$(pwd)" -prop "$PROP" -tier thorough; rc=$?
[ $rc -ne 0 ] && exit $rc
res=$(tools/poscontrols.sh "$PROP" "$REPO" | tail -1); prc=$?
echo "positive controls: $res"
# record the controls in the evidence file of this run
python3 - "$PROP" "$res" <<'PY'
import json, sys
p = "evidence/%s.json" % sys.argv[1]
ev = json.load(open(p))
try:
    ctl = json.loads(sys.argv[2])
except Exception:
    ctl = {"error": sys.argv[2][:300]}
ev.setdefault("coverage", {})["positive_controls"] = ctl
json.dump(ev, open(p, "w"), indent=1)
PY
if ! echo "$res" | grep -q '"failed": \[\]'; then
  echo "BROKEN-CHECK property=$PROP a stored seeded change that the rules of this property reported before is no longer reported (see positive controls above): the analysis may be passing vacuously"
  exit 2
fi
exit 0
