package executor

// Finding for property C07 ("a failed transaction leaves no effect beyond nonce and fee").
//
// A FAILED plain transfer to an address Y that has no account record leaves a persisted, empty account
// record for Y and changes the state root of the block, whenever something has merely LOADED Y into the
// ledger's account map before the failing transaction runs:
//
//   - an earlier, successful transaction of the same block (here: an Ethereum transaction that is a
//     value-less call to Y; EVM Call -> StateDB.ExistEVM(Y) -> SimpleLedger.GetOrCreateAccount(Y)), or
//   - a balance query answered by the node (gRPC GetAccountBalance -> coreapi AccountAPI.GetAccount ->
//     Ledger.Copy().GetOrCreateAccount(Y); SimpleLedger.Copy returns the live ledger itself).
//
// The failing transaction is an ordinary BxhTransaction of type NORMAL moving balance-1 from S to Y: the
// transfer itself succeeds, S can then not pay GasNormalTx*price, applyTransaction reverts to the
// snapshot and takes the rest of S's balance as the fee; the receipt is FAILED.
//
// Everything runs through the REAL executor (ExecuteBlock -> verifySign -> processExecuteEvent ->
// applyTransaction) on a REAL ledger (leveldb + blockfile); the persisted state is read back with a second
// ledger opened on the same state database.

import (
	"crypto/ecdsa"
	"io/ioutil"
	"math/big"
	"path/filepath"
	"testing"
	"time"

	"github.com/ethereum/go-ethereum/common"
	ethtypes "github.com/ethereum/go-ethereum/core/types"
	ethcrypto "github.com/ethereum/go-ethereum/crypto"
	"github.com/meshplus/bitxhub-kit/crypto"
	"github.com/meshplus/bitxhub-kit/crypto/asym"
	"github.com/meshplus/bitxhub-kit/log"
	"github.com/meshplus/bitxhub-kit/storage"
	"github.com/meshplus/bitxhub-kit/storage/blockfile"
	"github.com/meshplus/bitxhub-kit/storage/leveldb"
	"github.com/meshplus/bitxhub-kit/types"
	"github.com/meshplus/bitxhub-model/pb"
	"github.com/meshplus/bitxhub/internal/executor/oracle/appchain"
	"github.com/meshplus/bitxhub/internal/ledger"
	"github.com/meshplus/bitxhub/internal/model/events"
	"github.com/meshplus/bitxhub/internal/repo"
	types2 "github.com/meshplus/eth-kit/types"
	"github.com/stretchr/testify/assert"
	"github.com/stretchr/testify/require"
)

const zzFindingFunds = 1000000000000

// the actors are the same in every chain of a test, so that state roots can be compared
type zzFindingActors struct {
	sKey   crypto.PrivateKey // sender of the failing transfer
	s      *types.Address
	eKey   *ecdsa.PrivateKey // sender of the Ethereum transaction
	e      *types.Address
	y, z   *types.Address // fresh addresses: no record in the state database
	sNonce uint64
}

func zzFindingNewActors(t *testing.T) *zzFindingActors {
	sKey, err := asym.GenerateKeyPair(crypto.Secp256k1)
	require.Nil(t, err)
	s, err := sKey.PublicKey().Address()
	require.Nil(t, err)
	eKey, err := ethcrypto.GenerateKey()
	require.Nil(t, err)
	return &zzFindingActors{
		sKey: sKey, s: s,
		eKey: eKey, e: types.NewAddress(ethcrypto.PubkeyToAddress(eKey.PublicKey).Bytes()),
		y: randAddress(t), z: randAddress(t),
	}
}

type zzFindingChain struct {
	t       *testing.T
	ldg     *ledger.Ledger
	stateDB storage.Storage
	exec    *BlockExecutor
	blockCh chan events.ExecutedEvent
	height  uint64
}

// a node with an empty chain whose block 1 funds S and E
func zzFindingNewChain(t *testing.T, a *zzFindingActors) *zzFindingChain {
	types2.InitEIP155Signer(big.NewInt(1))
	config := generateMockConfig(t)
	repoRoot, err := ioutil.TempDir("", "zz_finding_c07")
	require.Nil(t, err)

	blockchainStorage, err := leveldb.New(filepath.Join(repoRoot, "storage"))
	require.Nil(t, err)
	ldb, err := leveldb.New(filepath.Join(repoRoot, "ledger"))
	require.Nil(t, err)
	accountCache, err := ledger.NewAccountCache()
	require.Nil(t, err)
	blockFile, err := blockfile.NewBlockFile(repoRoot, log.NewWithModule("zz_finding"))
	require.Nil(t, err)
	ldg, err := ledger.New(createMockRepo(t), blockchainStorage, ldb, blockFile, accountCache, log.NewWithModule("ledger"))
	require.Nil(t, err)

	ldg.SetBalance(a.s, big.NewInt(zzFindingFunds))
	ldg.SetBalance(a.e, big.NewInt(zzFindingFunds))
	accounts, journal := ldg.FlushDirtyData()
	require.Nil(t, ldg.Commit(1, accounts, journal))
	require.Nil(t, ldg.PersistExecutionResult(mockBlock(1, nil), nil, &pb.InterchainMeta{}))

	exec, err := New(ldg, log.NewWithModule("executor"), &appchain.Client{}, config, big.NewInt(1))
	require.Nil(t, err)
	require.Nil(t, exec.Start())
	ch := make(chan events.ExecutedEvent)
	sub := exec.SubscribeBlockEvent(ch)
	t.Cleanup(func() {
		sub.Unsubscribe()
		_ = exec.Stop()
	})
	return &zzFindingChain{t: t, ldg: ldg, stateDB: ldb, exec: exec, blockCh: ch, height: 1}
}

// executeBlock runs one block through the executor; it returns the executed block and the receipts
func (c *zzFindingChain) executeBlock(txs ...pb.Transaction) (*pb.Block, []*pb.Receipt) {
	c.height++
	c.exec.ExecuteBlock(mockCommitEvent(c.height, txs))
	var block *pb.Block
	select {
	case ev := <-c.blockCh:
		require.EqualValues(c.t, c.height, ev.Block.Height())
		block = ev.Block
	case <-time.After(60 * time.Second):
		c.t.Fatalf("block %d was not executed", c.height)
	}
	receipts := make([]*pb.Receipt, 0, len(txs))
	for _, tx := range txs {
		r, err := c.ldg.GetReceipt(tx.GetHash())
		require.Nil(c.t, err)
		receipts = append(receipts, r)
	}
	return block, receipts
}

// hasPersistedRecord re-opens the state database with a fresh ledger (a restarted node) and reports
// whether there is an account record for addr
func (c *zzFindingChain) hasPersistedRecord(addr *types.Address) bool {
	sl, err := ledger.NewSimpleLedger(&repo.Repo{Config: &repo.Config{}}, c.stateDB, nil, log.NewWithModule("zz_finding_view"))
	require.Nil(c.t, err)
	return sl.GetAccount(addr) != nil
}

// a NORMAL transfer of all but one unit of S's balance: the transfer works, the fee cannot be paid
func (a *zzFindingActors) failingTransfer(t *testing.T, to *types.Address, balance int64) pb.Transaction {
	amount := big.NewInt(balance - 1).String()
	td := &pb.TransactionData{Type: pb.TransactionData_NORMAL, Amount: amount}
	payload, err := td.Marshal()
	require.Nil(t, err)
	tx := &pb.BxhTransaction{From: a.s, To: to, Payload: payload, Amount: amount, Timestamp: time.Now().UnixNano(), Nonce: a.sNonce}
	require.Nil(t, tx.Sign(a.sKey))
	tx.TransactionHash = tx.Hash()
	return tx
}

// a correctly signed Ethereum transaction: a call without value and without data
func (a *zzFindingActors) valuelessEthCall(t *testing.T, to *types.Address) pb.Transaction {
	target := common.BytesToAddress(to.Bytes())
	signed, err := ethtypes.SignTx(ethtypes.NewTx(&ethtypes.LegacyTx{
		Nonce: 0, GasPrice: big.NewInt(1), Gas: 100000, To: &target, Value: big.NewInt(0),
	}), ethtypes.NewEIP155Signer(big.NewInt(1)), a.eKey)
	require.Nil(t, err)
	raw, err := signed.MarshalBinary()
	require.Nil(t, err)
	tx := &types2.EthTransaction{}
	require.Nil(t, tx.UnmarshalBinary(raw))
	require.Nil(t, tx.VerifySignature())
	require.Equal(t, a.e.String(), tx.GetFrom().String())
	return tx
}

func (c *zzFindingChain) checkFailedTransfer(a *zzFindingActors, r *pb.Receipt) {
	require.Equal(c.t, pb.Receipt_FAILED, r.Status, "the sender cannot pay the fee: receipt must be FAILED (%s)", string(r.Ret))
	require.Contains(c.t, string(r.Ret), "insufficient balance")
	// the allowed effects: nonce advanced, whole remaining balance taken as the fee
	require.EqualValues(c.t, a.sNonce+1, c.ldg.GetNonce(a.s))
	require.Equal(c.t, "0", c.ldg.GetBalance(a.s).String())
	require.Equal(c.t, "0", c.ldg.GetBalance(a.y).String(), "nothing was transferred")
}

// Block 2 = [ E: value-less Ethereum call to <loaded>,  S: FAILED transfer to Y ].
// Chain "control" loads another fresh address Z, chain "subject" loads Y itself. Everything else is equal,
// neither Y nor Z ends up with anything, so both chains must reach the same state and the same state root.
func TestZZFindingC07_FailedTransferToLoadedFreshAddress(t *testing.T) {
	a := zzFindingNewActors(t)

	run := func(loaded *types.Address) (*zzFindingChain, *pb.Block) {
		c := zzFindingNewChain(t, a)
		require.False(t, c.hasPersistedRecord(a.y), "Y is fresh")
		block, rs := c.executeBlock(a.valuelessEthCall(t, loaded), a.failingTransfer(t, a.y, zzFindingFunds))
		require.Equal(t, pb.Receipt_SUCCESS, rs[0].Status, string(rs[0].Ret))
		c.checkFailedTransfer(a, rs[1])
		return c, block
	}

	control, controlBlock := run(a.z)
	require.False(t, control.hasPersistedRecord(a.y), "control: the FAILED transfer leaves no record for Y")
	require.False(t, control.hasPersistedRecord(a.z), "control: a value-less call creates no record")

	subject, subjectBlock := run(a.y)
	assert.False(t, subject.hasPersistedRecord(a.y),
		"C07: the FAILED transfer persisted an (empty) account record for its receiver Y")
	assert.Equal(t, controlBlock.BlockHeader.StateRoot.String(), subjectBlock.BlockHeader.StateRoot.String(),
		"C07: the FAILED transfer changed the state root")
}

// The same FAILED transfer alone in block 2, on two nodes of the same chain. Node 2 has answered a balance
// query for Y (what coreapi AccountAPI.GetAccount does on the node's ledger) before the block arrived.
// Both nodes must compute the same state root for the same block.
func TestZZFindingC07_FailedTransferAfterBalanceQuery(t *testing.T) {
	a := zzFindingNewActors(t)
	tx := a.failingTransfer(t, a.y, zzFindingFunds)

	node1 := zzFindingNewChain(t, a)
	block1, rs := node1.executeBlock(tx)
	node1.checkFailedTransfer(a, rs[0])
	require.False(t, node1.hasPersistedRecord(a.y))

	node2 := zzFindingNewChain(t, a)
	_ = node2.ldg.Copy().GetOrCreateAccount(a.y).GetBalance() // internal/coreapi/account.go: GetAccount
	block2, rs := node2.executeBlock(tx)
	node2.checkFailedTransfer(a, rs[0])

	assert.False(t, node2.hasPersistedRecord(a.y),
		"C07: the FAILED transfer persisted an (empty) account record for its receiver Y")
	assert.Equal(t, block1.BlockHeader.StateRoot.String(), block2.BlockHeader.StateRoot.String(),
		"C07: two nodes computed different state roots for the same block with one FAILED transfer")
}
