package mempool

import (
	"strings"
	"sync"
	"testing"

	"github.com/meshplus/bitxhub-kit/log"
	"github.com/meshplus/bitxhub-kit/types"
	"github.com/meshplus/bitxhub-model/pb"
	raftproto "github.com/meshplus/bitxhub/pkg/order/etcdraft/proto"
	"github.com/stretchr/testify/assert"
	"github.com/stretchr/testify/require"
)

// findingLedger stands for the state ledger the pool reads committed nonces from
// (production: bxh.Ledger.Copy().GetNonce, wired in internal/app/bitxhub.go). The executor
// sets nonce = tx.nonce+1 for every executed transaction, without comparing with the old
// value (internal/executor/handle.go applyTransaction), so the pool is the only nonce guard.
type findingLedger struct {
	mu     sync.Mutex
	nonces map[string]uint64
}

func (l *findingLedger) get(addr *types.Address) uint64 {
	l.mu.Lock()
	defer l.mu.Unlock()
	return l.nonces[addr.String()]
}

// execute plays the executor + feedhub of a replica: the block is executed (ledger nonces move)
// and then reported to the order module, which calls MemPool.CommitTransactions with the hashes
// of ALL transactions of the block (etcdraft Node.reportState).
func (l *findingLedger) execute(pool MemPool, height uint64, txs ...pb.Transaction) {
	hashes := make([]*types.Hash, 0, len(txs))
	l.mu.Lock()
	for _, tx := range txs {
		l.nonces[tx.GetFrom().String()] = tx.GetNonce() + 1
		hashes = append(hashes, tx.GetHash())
	}
	l.mu.Unlock()
	pool.CommitTransactions(&ChainState{Height: height, TxHashList: hashes})
}

func findingPool() (*mempoolImpl, *findingLedger) {
	ledger := &findingLedger{nonces: make(map[string]uint64)}
	mpi := newMempoolImpl(&Config{
		ID:              2,
		ChainHeight:     DefaultTestChainHeight,
		BatchSize:       DefaultTestBatchSize, // 4
		PoolSize:        DefaultPoolSize,
		TxSliceSize:     DefaultTestTxSetSize,
		TxSliceTimeout:  DefaultTxSetTick,
		Logger:          log.NewWithModule("consensus"),
		GetAccountNonce: ledger.get,
	})
	return mpi, ledger
}

func findingNonces(batch *raftproto.RequestBatch, account string) []uint64 {
	res := []uint64{}
	if batch == nil {
		return res
	}
	for _, tx := range batch.TxList.Transactions {
		if tx != nil && tx.GetFrom().String() == account {
			res = append(res, tx.GetNonce())
		}
	}
	return res
}

// NOTES item 2 (safety): a replica whose commit nonce of an account is cached does not move it when
// a block commits transactions of that account that never reached this replica (tx broadcast is
// best effort: etcdraft broadcastTx ignores the error of peerMgr.Broadcast). Later, as leader, it
// batches transactions whose nonces are below the committed nonce of the ledger.
//
// Production path:
//
//	block 2: a0 reached every replica (BROADCAST_TX -> processTransactions(_, false)), executed,
//	         reportState -> CommitTransactions({h(a0)})                     => cache commit[A] = 1
//	block 3: a1, a2 were sent to the leader, the broadcast to this replica was lost; the block is
//	         executed here as on every replica, reportState -> CommitTransactions({h(a1), h(a2)})
//	         (both hashes unknown here)                                     => ledger nonce 3
//	raft elects this replica; anybody re-sends the (public, still inside the 30 minute timestamp
//	window, the API checks no nonce) a1 and a2, followed by the sender's next a3, a4:
//	Prepare -> processTransactions -> ProcessTransactions(_, true, _).
func TestFindingC18StaleCommitNonceBatchesCommittedNonces(t *testing.T) {
	mpi, ledger := findingPool()
	var pool MemPool = mpi

	key := genPrivKey()
	addr, _ := key.PublicKey().Address()
	account := addr.String()
	a0, a1, a2, a3, a4 := constructTx(0, &key), constructTx(1, &key), constructTx(2, &key), constructTx(3, &key), constructTx(4, &key)

	// block 2
	require.Nil(t, pool.ProcessTransactions([]pb.Transaction{a0}, false, false))
	ledger.execute(pool, 2, a0)
	require.Equal(t, uint64(1), pool.GetPendingNonceByAccount(account))

	// block 3, built by the leader from txs this replica never received
	ledger.execute(pool, 3, a1, a2)
	committed := ledger.get(addr)
	require.Equal(t, uint64(3), committed)

	// this replica is the leader now; a1, a2 are delivered again, a3, a4 are new
	batch := pool.ProcessTransactions([]pb.Transaction{a1, a2, a3, a4}, true, false)
	if batch == nil {
		batch = pool.GenerateBlock()
	}
	require.NotNil(t, batch)
	got := findingNonces(batch, account)
	for _, n := range got {
		assert.GreaterOrEqualf(t, n, committed,
			"C18: nonce %d of %s is batched although the ledger has committed up to %d (batch %v)", n, account, committed, got)
	}
	assert.Equal(t, []uint64{3, 4}, got, "the batch must start at the committed nonce")
	assert.Nil(t, pool.GetTransaction(a1.GetHash()), "an already committed transaction must not be admitted")
}

// Same defect, the cached value comes from the public API GetPendingNonceByAccount (what an SDK asks
// before it signs the first transaction): the call caches the ledger nonce as commit nonce.
func TestFindingC18StaleCommitNonceCachedByAPIQuery(t *testing.T) {
	mpi, ledger := findingPool()
	var pool MemPool = mpi

	key := genPrivKey()
	addr, _ := key.PublicKey().Address()
	account := addr.String()
	a0, a1, a2, a3 := constructTx(0, &key), constructTx(1, &key), constructTx(2, &key), constructTx(3, &key)

	require.Equal(t, uint64(0), pool.GetPendingNonceByAccount(account)) // client asks this replica
	ledger.execute(pool, 2, a0, a1)                                     // sent through another replica, broadcast lost
	committed := ledger.get(addr)

	batch := pool.ProcessTransactions([]pb.Transaction{a0, a1, a2, a3}, true, false)
	if batch == nil {
		batch = pool.GenerateBlock()
	}
	require.NotNil(t, batch)
	got := findingNonces(batch, account)
	for _, n := range got {
		assert.GreaterOrEqualf(t, n, committed, "C18: committed nonce %d batched again (ledger nonce %d, batch %v)", n, committed, got)
	}
	assert.Equal(t, []uint64{2, 3}, got)
}

// NOTES item 1: the commit moves the commit nonce past the pending nonce (this follower never received
// nonce 1), the pending nonce stays behind: the documented invariant pending >= commit (tx_store.go) is
// broken, a transaction with an already committed nonce passes the entry filter, and the account's
// parked transactions (nonce 3 == commit nonce!) are never promoted, so as leader this replica never
// batches the account again.
//
// Production path: BROADCAST_TX [a0, a2, a3] (a1 lost) -> ProcessTransactions(_, false, false);
// leader's block {a0, a1, a2} executed -> reportState -> CommitTransactions; re-broadcast of a1;
// election; Prepare(a4..a6) -> ProcessTransactions(_, true, true).
func TestFindingC18CommitPastPendingNonce(t *testing.T) {
	mpi, ledger := findingPool()
	var pool MemPool = mpi

	key := genPrivKey()
	addr, _ := key.PublicKey().Address()
	account := addr.String()
	txs := make([]pb.Transaction, 7)
	for i := range txs {
		txs[i] = constructTx(uint64(i), &key)
	}

	require.Nil(t, pool.ProcessTransactions([]pb.Transaction{txs[0], txs[2], txs[3]}, false, false))
	require.Equal(t, uint64(1), pool.GetPendingNonceByAccount(account))

	ledger.execute(pool, 2, txs[0], txs[1], txs[2])
	commit := mpi.txStore.nonceCache.getCommitNonce(account)
	require.Equal(t, uint64(3), commit)
	assert.GreaterOrEqual(t, pool.GetPendingNonceByAccount(account), commit,
		"invariant of nonceCache: pendingNonces[account] >= commitNonces[account]")

	// late re-broadcast of the committed nonce 1
	pool.ProcessTransactions([]pb.Transaction{txs[1]}, false, false)
	assert.Nil(t, pool.GetTransaction(txs[1].GetHash()), "nonce 1 is committed (commit nonce 3) but was admitted to the pool")
	assert.Equal(t, 0, func() int {
		n := 0
		for _, ptr := range mpi.txStore.txHashMap {
			if ptr.account == account && ptr.nonce < commit {
				n++
			}
		}
		return n
	}(), "pool entries below the commit nonce")

	// this replica becomes leader: 3 (parked, equals the commit nonce) 4 5 6 are consecutive -> one full batch
	batch := pool.ProcessTransactions([]pb.Transaction{txs[4], txs[5], txs[6]}, true, true)
	if batch == nil {
		batch = pool.GenerateBlock()
	}
	assert.Equal(t, []uint64{3, 4, 5, 6}, findingNonces(batch, account),
		"the account is stalled: its consecutive run from the commit nonce is never batched")
	assert.Equal(t, uint64(7), pool.GetPendingNonceByAccount(account))
}

// NOTES item 4 (not a C18 violation: what is batched is a tx given for that account and nonce; shown for
// the record): a second tx with the same (account, nonce) replaces a parked one, the replaced hash keeps
// pointing at the slot.
func TestFindingC18ConflictingParkedTxKeepsOldHash(t *testing.T) {
	mpi, _ := findingPool()
	var pool MemPool = mpi
	key := genPrivKey()
	txA := constructTx(2, &key)
	txB := constructTx(2, &key)
	require.NotEqual(t, txA.GetHash().String(), txB.GetHash().String())

	pool.ProcessTransactions([]pb.Transaction{txA}, false, false)
	pool.ProcessTransactions([]pb.Transaction{txB}, false, false)
	if got := pool.GetTransaction(txA.GetHash()); got != nil {
		assert.Equal(t, txA.GetHash().String(), got.GetHash().String(), "GetTransaction(hashA) returned a tx with another hash")
	}
	assert.Equal(t, 1, len(mpi.txStore.txHashMap), "one slot, one hash")
}

// NOTES item 5 (API answer, not a batching violation): the pool keys accounts by the checksum form, the
// grpc API passes the client's string through.
func TestFindingC18PendingNonceKeyedByRawString(t *testing.T) {
	mpi, _ := findingPool()
	var pool MemPool = mpi
	key := genPrivKey()
	addr, _ := key.PublicKey().Address()
	pool.ProcessTransactions([]pb.Transaction{constructTx(0, &key), constructTx(1, &key), constructTx(2, &key)}, false, false)
	require.Equal(t, uint64(3), pool.GetPendingNonceByAccount(addr.String()))
	assert.Equal(t, uint64(3), pool.GetPendingNonceByAccount(strings.ToLower(addr.String())), "same account, lower-case spelling")
}
