package executor

// Demonstration for finding C06 (harness of seed C04-rejected-receipt-removes-from-list-r8): whole histories on the real ledger, executed by the real
// BlockExecutor.processExecuteEvent (real InterchainManager / TransactionManager contracts and the real
// post-block timeout bookkeeping). Only the two services are placed in the executor's service cache
// instead of being registered through governance, and the block carries Extra so that the (appchain
// specific) IBTP proof check is skipped.
//
// copy to internal/executor/zz_finding_c06b_test.go

import (
	"math/big"
	"path/filepath"
	"strconv"
	"testing"
	"time"

	"github.com/meshplus/bitxhub-core/governance"
	service_mgr "github.com/meshplus/bitxhub-core/service-mgr"
	"github.com/meshplus/bitxhub-kit/crypto"
	"github.com/meshplus/bitxhub-kit/log"
	"github.com/meshplus/bitxhub-kit/storage/blockfile"
	"github.com/meshplus/bitxhub-kit/storage/leveldb"
	"github.com/meshplus/bitxhub-model/constant"
	"github.com/meshplus/bitxhub-model/pb"
	"github.com/meshplus/bitxhub/internal/executor/contracts"
	"github.com/meshplus/bitxhub/internal/executor/oracle/appchain"
	"github.com/meshplus/bitxhub/internal/ledger"
	"github.com/stretchr/testify/require"
)

const (
	findbSrc = "1:chain0:svc0"
	findbDst = "1:chain1:svc1"
)

type findC06bChain struct {
	t      *testing.T
	exec   *BlockExecutor
	ldg    *ledger.Ledger
	key    crypto.PrivateKey
	nonce  uint64
	height uint64
}

func newFindC06bChain(t *testing.T) *findC06bChain {
	config := generateMockConfig(t)
	repoRoot := t.TempDir()

	blockchainStorage, err := leveldb.New(filepath.Join(repoRoot, "storage"))
	require.Nil(t, err)
	ldb, err := leveldb.New(filepath.Join(repoRoot, "ledger"))
	require.Nil(t, err)
	accountCache, err := ledger.NewAccountCache()
	require.Nil(t, err)
	blockFile, err := blockfile.NewBlockFile(repoRoot, log.NewWithModule("blockfile"))
	require.Nil(t, err)
	ldg, err := ledger.New(createMockRepo(t), blockchainStorage, ldb, blockFile, accountCache, log.NewWithModule("ledger"))
	require.Nil(t, err)

	privKey, from := loadAdminKey(t)
	ldg.SetBalance(from, new(big.Int).SetUint64(1000000000000000000))
	ldg.SetState(constant.InterchainContractAddr.Address(), []byte(contracts.BitXHubID), []byte("1"), nil)
	account, journal := ldg.FlushDirtyData()
	require.Nil(t, ldg.Commit(1, account, journal))
	require.Nil(t, ldg.PersistExecutionResult(mockBlock(1, nil), nil, &pb.InterchainMeta{}))

	exec, err := New(ldg, log.NewWithModule("executor"), &appchain.Client{}, config, big.NewInt(1))
	require.Nil(t, err)

	for _, s := range []*service_mgr.Service{
		{ChainID: "chain0", ServiceID: "svc0", Ordered: false, Status: governance.GovernanceAvailable},
		{ChainID: "chain1", ServiceID: "svc1", Ordered: true, Status: governance.GovernanceAvailable},
	} {
		exec.serviceCache.Store(s.ChainID+":"+s.ServiceID, s)
	}

	return &findC06bChain{t: t, exec: exec, ldg: ldg, key: privKey, height: 1}
}

func (c *findC06bChain) ibtpTx(index uint64, typ pb.IBTP_Type, timeout int64) pb.Transaction {
	from, err := c.key.PublicKey().Address()
	require.Nil(c.t, err)
	content := pb.Content{Func: "set"}
	cb, err := content.Marshal()
	require.Nil(c.t, err)
	payload := pb.Payload{Content: cb}
	pd, err := payload.Marshal()
	require.Nil(c.t, err)

	c.nonce++
	tx := &pb.BxhTransaction{
		From:      from,
		To:        constant.InterchainContractAddr.Address(),
		Timestamp: time.Now().UnixNano(),
		Nonce:     c.nonce,
		IBTP: &pb.IBTP{
			From:          findbSrc,
			To:            findbDst,
			Index:         index,
			Type:          typ,
			TimeoutHeight: timeout,
			Payload:       pd,
		},
	}
	require.Nil(c.t, tx.Sign(c.key))
	tx.TransactionHash = tx.Hash()
	return tx
}

// block executes the next block with the given transactions and returns their receipts
func (c *findC06bChain) block(txs ...pb.Transaction) []*pb.Receipt {
	c.height++
	ev := mockCommitEvent(c.height, txs)
	ev.Block.Extra = []byte("skip appchain proof check")
	c.exec.processExecuteEvent(c.exec.verifySign(ev))
	require.EqualValues(c.t, c.height, c.ldg.GetChainMeta().Height)

	receipts := make([]*pb.Receipt, 0, len(txs))
	for _, tx := range txs {
		r, err := c.ldg.GetReceipt(tx.GetHash())
		require.Nil(c.t, err)
		receipts = append(receipts, r)
	}
	return receipts
}

// status is the status query: TransactionManager.GetStatus(id) run as a read-only BVM transaction
func (c *findC06bChain) status(index uint64) pb.TransactionStatus {
	id := findbSrc + "-" + findbDst + "-" + strconv.FormatUint(index, 10)
	c.nonce++
	tx, err := genBVMContractTransaction(c.key, c.nonce, constant.TransactionMgrContractAddr.Address(), "GetStatus", pb.String(id))
	require.Nil(c.t, err)
	receipts := c.exec.ApplyReadonlyTransactions([]pb.Transaction{tx})
	require.Len(c.t, receipts, 1)
	require.Equal(c.t, pb.Receipt_SUCCESS, receipts[0].Status, string(receipts[0].Ret))
	v, err := strconv.Atoi(string(receipts[0].Ret))
	require.Nil(c.t, err)
	return pb.TransactionStatus(v)
}

// Finding C06 (recorded, not repaired): the source service is registered as unordered, the destination as ordered.
// The request side of checkIBTP decides "batch" by the DESTINATION's Ordered flag (not batch: the request is
// listed for its timeout), the receipt side by the SOURCE's flag (batch: the receipt answers "batch_ibtp", which
// filterValidTx files as invalid, and setTimeoutList skips it). The success receipt is accepted - the status is
// SUCCESS - but the request is never taken out of the timeout list: in block H+T it is reported as timed out and
// SUCCESS is overwritten with BEGIN_ROLLBACK.
func TestFindingC06_UnorderedSourceOrderedDestination(t *testing.T) {
	c := newFindC06bChain(t)

	rs := c.block(c.ibtpTx(1, pb.IBTP_INTERCHAIN, 3)) // block 2, deadline 5
	require.Equal(t, pb.Receipt_SUCCESS, rs[0].Status, string(rs[0].Ret))
	require.Equal(t, pb.TransactionStatus_BEGIN, c.status(1))

	rs = c.block(c.ibtpTx(1, pb.IBTP_RECEIPT_SUCCESS, 0)) // block 3
	require.Equal(t, pb.Receipt_SUCCESS, rs[0].Status, string(rs[0].Ret))
	t.Logf("receipt answer: %q", string(rs[0].Ret))
	require.Equal(t, pb.TransactionStatus_SUCCESS, c.status(1))

	c.block()
	c.block() // height 5 = H+T
	meta, err := c.ldg.GetInterchainMeta(5)
	require.Nil(t, err)
	require.Empty(t, meta.TimeoutCounter, "the receipt was accepted in block 3: the request must not be listed as timed out in block 5")
	require.Equal(t, pb.TransactionStatus_SUCCESS, c.status(1), "SUCCESS is final")
}
