package executor

import (
	"crypto/sha256"
	"github.com/meshplus/bitxhub-kit/crypto"
	"github.com/meshplus/bitxhub-kit/types"
		"encoding/json"
	"fmt"
	"io/ioutil"
	"math/big"
	"path/filepath"
	"runtime/debug"
	"testing"
	"time"

	appchainMgr "github.com/meshplus/bitxhub-core/appchain-mgr"
	"github.com/meshplus/bitxhub-core/governance"
	ruleMgr "github.com/meshplus/bitxhub-core/rule-mgr"
	"github.com/meshplus/bitxhub-core/validator"
	"github.com/meshplus/bitxhub-kit/log"
	"github.com/meshplus/bitxhub-kit/storage/blockfile"
	"github.com/meshplus/bitxhub-kit/storage/leveldb"
	"github.com/meshplus/bitxhub-model/constant"
	"github.com/meshplus/bitxhub-model/pb"
	"github.com/meshplus/bitxhub/internal/executor/contracts"
	"github.com/meshplus/bitxhub/internal/executor/oracle/appchain"
	"github.com/meshplus/bitxhub/internal/ledger"
	"github.com/stretchr/testify/require"
)


type zzEnv struct {
	exec *BlockExecutor
	ldg  *ledger.Ledger
	priv crypto.PrivateKey
	from *types.Address
	fromService, toService string
}

func zzNewEnv(t *testing.T) *zzEnv {
	config := generateMockConfig(t)
	repoRoot, err := ioutil.TempDir("", "executor_seed_c08")
	require.Nil(t, err)

	blockchainStorage, err := leveldb.New(filepath.Join(repoRoot, "storage"))
	require.Nil(t, err)
	ldb, err := leveldb.New(filepath.Join(repoRoot, "ledger"))
	require.Nil(t, err)
	accountCache, err := ledger.NewAccountCache()
	require.Nil(t, err)
	blockFile, err := blockfile.NewBlockFile(repoRoot, log.NewWithModule("executor_test"))
	require.Nil(t, err)
	ldg, err := ledger.New(createMockRepo(t), blockchainStorage, ldb, blockFile, accountCache, log.NewWithModule("ledger"))
	require.Nil(t, err)

	privKey, from := loadAdminKey(t)
	bxh := fmt.Sprintf("%d", config.ChainID)
	srcChain := "chain0"
	fromService := fmt.Sprintf("%s:%s:%s", bxh, srcChain, from.String())
	toService := fmt.Sprintf("%s:%s:%s", bxh, "chain1", from.String())

	// genesis-like state (block 1): a funded sender, the bitxhub id, one registered
	// appchain and the rule bound to it (the built-in rule that accepts every proof)
	ldg.SetBalance(from, new(big.Int).Mul(big.NewInt(1000000000), big.NewInt(1000000000)))
	ldg.SetState(constant.InterchainContractAddr.Address(), []byte(contracts.BitXHubID), []byte(bxh), nil)
	app := &appchainMgr.Appchain{
		ID:        srcChain,
		ChainName: srcChain,
		ChainType: "ETH",
		TrustRoot: []byte("trust"),
		Status:    governance.GovernanceAvailable,
	}
	appData, err := json.Marshal(app)
	require.Nil(t, err)
	ldg.SetState(constant.AppchainMgrContractAddr.Address(), []byte(appchainMgr.AppchainKey(srcChain)), appData, nil)
	rules := []*ruleMgr.Rule{{
		Address: validator.HappyRuleAddr,
		ChainID: srcChain,
		Master:  true,
		Default: true,
		Status:  governance.GovernanceAvailable,
	}}
	rulesData, err := json.Marshal(rules)
	require.Nil(t, err)
	ldg.SetState(constant.RuleManagerContractAddr.Address(), []byte(ruleMgr.RuleKey(srcChain)), rulesData, nil)

	account, journal := ldg.FlushDirtyData()
	require.Nil(t, ldg.Commit(1, account, journal))
	require.Nil(t, ldg.PersistExecutionResult(mockBlock(1, nil), nil, &pb.InterchainMeta{}))

	exec, err := New(ldg, log.NewWithModule("executor"), &appchain.Client{}, config, big.NewInt(1))
	require.Nil(t, err)


	return &zzEnv{exec: exec, ldg: ldg, priv: privKey, from: from, fromService: fromService, toService: toService}
}

func zzRun(t *testing.T, name string, mk func(e *zzEnv) pb.Transaction) {
	t.Run(name, func(t *testing.T) {
		e := zzNewEnv(t)
		tx := mk(e)
		txs := []pb.Transaction{mockTransferTx(t), tx, mockTransferTx(t)}
		commitEvent := mockCommitEvent(2, txs)
		done := make(chan string, 1)
		go func() {
			defer func() {
				if r := recover(); r != nil {
					done <- fmt.Sprintf("CRASH: %v\n%s", r, string(debug.Stack()))
					return
				}
				done <- ""
			}()
			bw := e.exec.verifySign(commitEvent)
			e.exec.processExecuteEvent(bw)
		}()
		select {
		case msg := <-done:
			if msg != "" {
				t.Fatalf("%s", msg)
			}
		case <-time.After(20 * time.Second):
			t.Fatalf("WEDGED")
		}
		require.EqualValues(t, 2, e.ldg.GetChainMeta().Height)
	})
}

func zzSign(t *testing.T, e *zzEnv, tx *pb.BxhTransaction) *pb.BxhTransaction {
	require.Nil(t, tx.Sign(e.priv))
	tx.TransactionHash = tx.Hash()
	return tx
}

func zzPayload(t *testing.T, d *pb.TransactionData) []byte {
	b, err := d.Marshal()
	require.Nil(t, err)
	return b
}

func TestZZC08Probe(t *testing.T) {
	to := types.NewAddressByStr("0x3f9d18f7c3a6e5e4c0b877fe3e688ab08840b997")
	zzRun(t, "transfer_nil_to", func(e *zzEnv) pb.Transaction {
		return zzSign(t, e, &pb.BxhTransaction{From: e.from, To: nil, Timestamp: time.Now().UnixNano(), Nonce: 1,
			Payload: zzPayload(t, &pb.TransactionData{Type: pb.TransactionData_NORMAL, Amount: "10"})})
	})
	zzRun(t, "bvm_nil_to", func(e *zzEnv) pb.Transaction {
		ip, _ := (&pb.InvokePayload{Method: "Get", Args: []*pb.Arg{pb.String("a")}}).Marshal()
		return zzSign(t, e, &pb.BxhTransaction{From: e.from, To: nil, Timestamp: time.Now().UnixNano(), Nonce: 1,
			Payload: zzPayload(t, &pb.TransactionData{Type: pb.TransactionData_INVOKE, VmType: pb.TransactionData_BVM, Payload: ip})})
	})
	zzRun(t, "xvm_nil_to_empty_payload", func(e *zzEnv) pb.Transaction {
		return zzSign(t, e, &pb.BxhTransaction{From: e.from, To: nil, Timestamp: time.Now().UnixNano(), Nonce: 1,
			Payload: zzPayload(t, &pb.TransactionData{Type: pb.TransactionData_INVOKE, VmType: pb.TransactionData_XVM})})
	})
	zzRun(t, "xvm_unknown_to", func(e *zzEnv) pb.Transaction {
		return zzSign(t, e, &pb.BxhTransaction{From: e.from, To: to, Timestamp: time.Now().UnixNano(), Nonce: 1,
			Payload: zzPayload(t, &pb.TransactionData{Type: pb.TransactionData_INVOKE, VmType: pb.TransactionData_XVM, Payload: []byte("x")})})
	})
	zzRun(t, "nil_from_unsigned", func(e *zzEnv) pb.Transaction {
		tx := &pb.BxhTransaction{From: nil, To: to, Timestamp: time.Now().UnixNano(), Nonce: 1,
			Payload: zzPayload(t, &pb.TransactionData{Type: pb.TransactionData_NORMAL, Amount: "10"})}
		return tx
	})
	zzRun(t, "garbage_payload", func(e *zzEnv) pb.Transaction {
		return zzSign(t, e, &pb.BxhTransaction{From: e.from, To: to, Timestamp: time.Now().UnixNano(), Nonce: 1, Payload: []byte{0xff, 0xff, 0x01}})
	})
	zzRun(t, "ibtp_empty", func(e *zzEnv) pb.Transaction {
		return zzSign(t, e, &pb.BxhTransaction{From: e.from, To: to, Timestamp: time.Now().UnixNano(), Nonce: 1, IBTP: &pb.IBTP{}})
	})
	zzRun(t, "ibtp_bad_ids", func(e *zzEnv) pb.Transaction {
		return zzSign(t, e, &pb.BxhTransaction{From: e.from, To: to, Timestamp: time.Now().UnixNano(), Nonce: 1, IBTP: &pb.IBTP{From: "a", To: ":::", Index: 1}})
	})
	zzRun(t, "transfer_huge_amount", func(e *zzEnv) pb.Transaction {
		return zzSign(t, e, &pb.BxhTransaction{From: e.from, To: to, Timestamp: time.Now().UnixNano(), Nonce: 1,
			Payload: zzPayload(t, &pb.TransactionData{Type: pb.TransactionData_NORMAL, Amount: "99999999999999999999999999999999999999999999999999999999999999999999999999999999"})})
	})
	zzRun(t, "transfer_negative_amount", func(e *zzEnv) pb.Transaction {
		return zzSign(t, e, &pb.BxhTransaction{From: e.from, To: to, Timestamp: time.Now().UnixNano(), Nonce: 1,
			Payload: zzPayload(t, &pb.TransactionData{Type: pb.TransactionData_NORMAL, Amount: "-5"})})
	})
	zzRun(t, "unknown_vm_type", func(e *zzEnv) pb.Transaction {
		return zzSign(t, e, &pb.BxhTransaction{From: e.from, To: to, Timestamp: time.Now().UnixNano(), Nonce: 1,
			Payload: zzPayload(t, &pb.TransactionData{Type: pb.TransactionData_INVOKE, VmType: 7, Payload: []byte("x")})})
	})
}


// An IBTP whose source appchain is bound to the built-in (simulated) Fabric rule, with a proof that
// decodes to a ChaincodeActionPayload without action: the validator dereferences cap.Action.
func TestZZC08ProofPanic(t *testing.T) {
	e := zzNewEnv(t)
	// rebind chain0 to the sim-fabric rule
	rules := []*ruleMgr.Rule{{Address: validator.SimFabricRuleAddr, ChainID: "chain0", Master: true, Default: true, Status: governance.GovernanceAvailable}}
	rulesData, err := json.Marshal(rules)
	require.Nil(t, err)
	e.ldg.SetState(constant.RuleManagerContractAddr.Address(), []byte(ruleMgr.RuleKey("chain0")), rulesData, nil)

	proof := []byte{0x0a, 0x00}
	h := sha256.Sum256(proof)
	tx := zzSign(t, e, &pb.BxhTransaction{From: e.from, To: constant.InterchainContractAddr.Address(), Timestamp: time.Now().UnixNano(), Nonce: 1,
		IBTP: &pb.IBTP{From: e.fromService, To: e.toService, Index: 1, Type: pb.IBTP_INTERCHAIN, Proof: h[:]}, Extra: proof})
	var ok bool
	var cerr error
	require.NotPanics(t, func() { ok, _, cerr = e.exec.ibtpVerify.CheckProof(tx) }, "verifyProofs runs CheckProof on a bare goroutine: a panic here stops the node")
	require.False(t, ok)
	require.NotNil(t, cerr)
}

func TestZZC14NegativeTransfer(t *testing.T) {
	e := zzNewEnv(t)
	to := types.NewAddressByStr("0x3f9d18f7c3a6e5e4c0b877fe3e688ab08840b997")
	tx := zzSign(t, e, &pb.BxhTransaction{From: e.from, To: to, Timestamp: time.Now().UnixNano(), Nonce: 1,
		Payload: zzPayload(t, &pb.TransactionData{Type: pb.TransactionData_NORMAL, Amount: "-5"})})
	before := e.ldg.GetBalance(e.from)
	bw := e.exec.verifySign(mockCommitEvent(2, []pb.Transaction{tx}))
	e.exec.processExecuteEvent(bw)
	require.True(t, e.ldg.GetBalance(to).Sign() >= 0, "no balance ever becomes negative: receiver has %s", e.ldg.GetBalance(to))
	require.True(t, e.ldg.GetBalance(e.from).Cmp(before) <= 0, "the sender of a transfer does not gain: %s -> %s", before, e.ldg.GetBalance(e.from))
}
