package ledger

import (
	"errors"
	"fmt"
	"math/big"
	"testing"

	"github.com/meshplus/bitxhub-kit/bytesutil"
	"github.com/meshplus/bitxhub-kit/types"
	"github.com/meshplus/eth-kit/ledger"
	"github.com/stretchr/testify/assert"
	"github.com/stretchr/testify/require"
)

// C12 / note 7: a rollback that is refused with ErrorRollbackWithoutJournal has to leave the ledger as it was.
//
// Real Ledger (SimpleLedger + ChainLedgerImpl on leveldb / blockfile), no mocks.

var zz7Addr = types.NewAddress(bytesutil.LeftPadBytes([]byte{0xa7}, 20))

// block i: balance = i, nonce = i, storage k = "v<i>"
func zz7Exec(l *Ledger, i uint64) {
	l.PrepareBlock(nil, i)
	l.SetBalance(zz7Addr, new(big.Int).SetUint64(i))
	l.SetNonce(zz7Addr, i)
	l.SetState(zz7Addr, []byte("k"), []byte(fmt.Sprintf("v%d", i)), nil)
}

type zz7Snapshot struct {
	Version        uint64
	StoredMax      uint64
	StoredMin      uint64
	PrevJnlHash    string
	Balance        string
	Nonce          uint64
	K              string
	StoredBalance  string // what a freshly opened ledger would read: straight from the store
	JournalHeights []uint64
}

func zz7Take(l *Ledger, upTo uint64) zz7Snapshot {
	sl := l.StateLedger.(*SimpleLedger)
	s := zz7Snapshot{Version: l.Version(), PrevJnlHash: sl.prevJnlHash.String()}
	s.StoredMin, s.StoredMax = getJournalRange(sl.ldb)
	s.Balance = l.GetBalance(zz7Addr).String()
	s.Nonce = l.GetNonce(zz7Addr)
	_, k := l.GetState(zz7Addr, []byte("k"))
	s.K = string(k)
	// reading must not leave anything behind for the next step of the test
	sl.Clear()

	if data := sl.ldb.Get(compositeKey(accountKey, zz7Addr)); data != nil {
		stored := &ledger.InnerAccount{Balance: big.NewInt(0)}
		if err := stored.Unmarshal(data); err != nil {
			panic(err)
		}
		s.StoredBalance = stored.Balance.String()
	}
	for i := uint64(1); i <= upTo; i++ {
		if sl.ldb.Has(compositeKey(journalKey, i)) {
			s.JournalHeights = append(s.JournalHeights, i)
		}
	}
	return s
}

func TestZZFindingRefusedRollbackModifiesNothing(t *testing.T) {
	// A: blocks 1..4 committed through Ledger.PersistBlockData; the journal of block 2 is lost from the store
	t.Run("journal-lost-in-window", func(t *testing.T) {
		l, _ := initLedger(t, "")
		defer l.Close()
		sl := l.StateLedger.(*SimpleLedger)

		var roots []*types.Hash
		for i := uint64(1); i <= 4; i++ {
			zz7Exec(l, i)
			accounts, root := l.FlushDirtyData()
			l.PersistBlockData(genBlockData(i, accounts, root))
			roots = append(roots, root)
		}
		sl.ldb.Delete(compositeKey(journalKey, uint64(2)))

		before := zz7Take(l, 4)
		require.Equal(t, uint64(4), before.Version)
		require.Equal(t, "4", before.Balance)

		err := l.Rollback(1)
		require.NotNil(t, err)
		require.True(t, errors.Is(err, ErrorRollbackWithoutJournal), "got %v", err)

		after := zz7Take(l, 4)
		assert.Equal(t, before, after, "a refused rollback modifies nothing")
		assert.Equal(t, after.Version, after.StoredMax, "Version() and the persisted journal head")
		assert.Equal(t, uint64(4), l.GetChainMeta().Height)

		// what is still possible inside the window keeps working, and block 4 executed again gives root 4
		require.Nil(t, l.Rollback(3))
		s3 := zz7Take(l, 4)
		assert.Equal(t, "3", s3.Balance)
		assert.Equal(t, "v3", s3.K)
		assert.Equal(t, roots[2].String(), s3.PrevJnlHash)
		zz7Exec(l, 4)
		accounts, root := l.FlushDirtyData()
		l.PersistBlockData(genBlockData(4, accounts, root))
		assert.Equal(t, roots[3].String(), root.String(), "state root of block 4 executed again")
	})

	// B: no tampering with the store - StateLedger.Commit accepts a gap in the heights (1, 2, 4)
	t.Run("gap-in-committed-heights", func(t *testing.T) {
		l, _ := initLedger(t, "")
		defer l.Close()

		for _, i := range []uint64{1, 2, 4} {
			zz7Exec(l, i)
			accounts, root := l.FlushDirtyData()
			require.Nil(t, l.StateLedger.Commit(i, accounts, root))
		}

		before := zz7Take(l, 4)
		require.Equal(t, uint64(4), before.Version)

		err := l.RollbackState(1)
		require.Equal(t, ErrorRollbackWithoutJournal, err)

		after := zz7Take(l, 4)
		assert.Equal(t, before, after, "a refused rollback modifies nothing")
		assert.Equal(t, after.Version, after.StoredMax, "Version() and the persisted journal head")
	})

	// C: the journal of the target height itself is lost ("rollback to blockchain height without journal")
	t.Run("journal-of-target-lost", func(t *testing.T) {
		l, _ := initLedger(t, "")
		defer l.Close()
		sl := l.StateLedger.(*SimpleLedger)

		for i := uint64(1); i <= 3; i++ {
			zz7Exec(l, i)
			accounts, root := l.FlushDirtyData()
			l.PersistBlockData(genBlockData(i, accounts, root))
		}
		sl.ldb.Delete(compositeKey(journalKey, uint64(2)))

		before := zz7Take(l, 3)

		var err error
		var panicked interface{}
		func() {
			defer func() { panicked = recover() }()
			err = l.Rollback(2)
		}()
		assert.Nil(t, panicked, "Rollback(2) panicked")
		assert.True(t, errors.Is(err, ErrorRollbackWithoutJournal), "got %v", err)

		after := zz7Take(l, 3)
		assert.Equal(t, before, after, "a refused rollback modifies nothing")
	})
}
