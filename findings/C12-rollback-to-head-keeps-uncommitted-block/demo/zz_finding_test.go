package ledger

import (
	"math/big"
	"testing"

	"github.com/meshplus/bitxhub-kit/bytesutil"
	"github.com/meshplus/bitxhub-kit/types"
	"github.com/meshplus/bitxhub-model/pb"
	"github.com/stretchr/testify/assert"
	"github.com/stretchr/testify/require"
)

// C12 / note 2: Rollback(head) has to leave the ledger exactly at head, also when a
// further block has been executed (and flushed with FlushDirtyData) but never committed.
//
// Real Ledger (SimpleLedger + ChainLedgerImpl on leveldb / blockfile), no mocks.

func zzBlockHash(height uint64, stateRoot *types.Hash) *types.Hash {
	block := &pb.Block{
		BlockHeader:  &pb.BlockHeader{Number: height, StateRoot: stateRoot},
		Transactions: &pb.Transactions{},
	}
	return block.Hash()
}

// zzExecBlock1 / zzExecBlock2 are "the same blocks" that are executed on every ledger of the test.
func zzExecBlock1(l *Ledger, a *types.Address) {
	l.PrepareBlock(nil, 1)
	l.SetBalance(a, big.NewInt(1))
	l.SetNonce(a, 1)
	l.SetState(a, []byte("k"), []byte("v1"), nil)
	l.SetCode(a, []byte("code-1"))
}

func zzExecBlock2(l *Ledger, a, b *types.Address) {
	l.PrepareBlock(nil, 2)
	l.SetBalance(a, big.NewInt(2))
	l.SetNonce(a, 2)
	l.SetState(a, []byte("k"), []byte("v2"), nil)
	l.SetState(a, []byte("k2"), []byte("new"), nil)
	l.SetCode(a, []byte("code-2"))
	l.SetBalance(b, big.NewInt(7))
}

func zzCommit(l *Ledger, height uint64) *types.Hash {
	accounts, root := l.FlushDirtyData()
	l.PersistBlockData(genBlockData(height, accounts, root))
	return root
}

func zzRequireAsOfBlock1(t *testing.T, l *Ledger, a, b *types.Address, root1 *types.Hash) {
	assert.Equal(t, uint64(1), l.Version())
	assert.Equal(t, uint64(1), l.GetChainMeta().Height)
	assert.Equal(t, "1", l.GetBalance(a).String(), "balance of a as of block 1")
	assert.Equal(t, uint64(1), l.GetNonce(a), "nonce of a as of block 1")
	assert.Equal(t, []byte("code-1"), l.GetCode(a), "code of a as of block 1")
	ok, v := l.GetState(a, []byte("k"))
	assert.True(t, ok)
	assert.Equal(t, []byte("v1"), v, "storage key k of a as of block 1")
	ok, v = l.GetState(a, []byte("k2"))
	assert.False(t, ok, "storage key k2 did not exist as of block 1, read %q", v)
	assert.True(t, l.GetAccount(b) == nil, "account b did not exist as of block 1")
	assert.Equal(t, root1.String(), l.StateLedger.(*SimpleLedger).prevJnlHash.String(),
		"the state-root chain has to continue from the root of block 1")
}

func TestZZFindingRollbackToHeadDropsUncommittedBlock(t *testing.T) {
	a := types.NewAddress(bytesutil.LeftPadBytes([]byte{0xa1}, 20))
	b := types.NewAddress(bytesutil.LeftPadBytes([]byte{0xb2}, 20))

	// reference: block 1 and block 2 executed and committed once, nothing else
	ref, _ := initLedger(t, "")
	zzExecBlock1(ref, a)
	refRoot1 := zzCommit(ref, 1)
	zzExecBlock2(ref, a, b)
	refRoot2 := zzCommit(ref, 2)
	ref.Close()

	t.Run("flushed", func(t *testing.T) {
		l, _ := initLedger(t, "")
		defer l.Close()

		zzExecBlock1(l, a)
		root1 := zzCommit(l, 1)
		require.Equal(t, refRoot1.String(), root1.String())

		// a different block 2 is executed and flushed, but never committed
		// (this is what processExecuteEvent has done right before PersistBlockData)
		l.PrepareBlock(nil, 2)
		l.SetBalance(a, big.NewInt(2000))
		l.SetNonce(a, 9)
		l.SetState(a, []byte("k"), []byte("aborted"), nil)
		l.SetState(a, []byte("k2"), []byte("aborted"), nil)
		l.SetCode(a, []byte("aborted-code"))
		l.SetBalance(b, big.NewInt(5))
		_, abortedRoot := l.FlushDirtyData()
		require.NotEqual(t, refRoot2.String(), abortedRoot.String())

		// head is 1 (state journal and chain): roll back to it
		require.Nil(t, l.Rollback(1))
		zzRequireAsOfBlock1(t, l, a, b, root1)

		// the same block 2 again: same root, same block hash as on the reference ledger
		zzExecBlock2(l, a, b)
		root2 := zzCommit(l, 2)
		assert.Equal(t, refRoot2.String(), root2.String(), "state root of block 2 executed after Rollback(1)")
		assert.Equal(t, zzBlockHash(2, refRoot2).String(), zzBlockHash(2, root2).String(), "block hash of block 2")
	})

	t.Run("dirty-not-flushed", func(t *testing.T) {
		l, _ := initLedger(t, "")
		defer l.Close()

		zzExecBlock1(l, a)
		root1 := zzCommit(l, 1)

		// block 2 is being executed: writes are only in the dirty accounts
		l.PrepareBlock(nil, 2)
		l.SetBalance(a, big.NewInt(2000))
		l.SetNonce(a, 9)
		l.SetState(a, []byte("k"), []byte("aborted"), nil)
		l.SetState(a, []byte("k2"), []byte("aborted"), nil)
		l.SetCode(a, []byte("aborted-code"))
		l.SetBalance(b, big.NewInt(5))

		require.Nil(t, l.Rollback(1))
		zzRequireAsOfBlock1(t, l, a, b, root1)

		zzExecBlock2(l, a, b)
		root2 := zzCommit(l, 2)
		assert.Equal(t, refRoot2.String(), root2.String(), "state root of block 2 executed after Rollback(1)")
	})

	// control: the same aborted block, but the rollback goes one block below head and block 1 is
	// executed again - this is the path that already cleans up (passes with and without the repair)
	t.Run("control-below-head", func(t *testing.T) {
		l, _ := initLedger(t, "")
		defer l.Close()

		zzExecBlock1(l, a)
		zzCommit(l, 1)
		l.PrepareBlock(nil, 2)
		l.SetBalance(a, big.NewInt(2000))
		l.SetState(a, []byte("k"), []byte("aborted"), nil)
		l.FlushDirtyData()

		require.Nil(t, l.Rollback(0))
		require.Nil(t, l.GetAccount(a))
		zzExecBlock1(l, a)
		root1 := zzCommit(l, 1)
		require.Equal(t, refRoot1.String(), root1.String())
		zzRequireAsOfBlock1(t, l, a, b, root1)
	})
}
