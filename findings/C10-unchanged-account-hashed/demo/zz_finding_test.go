package executor

import (
	"crypto/sha256"
	"encoding/binary"
	"io/ioutil"
	"math/big"
	"path/filepath"
	"testing"
	"time"

	"github.com/ethereum/go-ethereum/common"
	ethtypes "github.com/ethereum/go-ethereum/core/types"
	ethcrypto "github.com/ethereum/go-ethereum/crypto"
	"github.com/meshplus/bitxhub-kit/crypto"
	"github.com/meshplus/bitxhub-kit/crypto/asym"
	"github.com/meshplus/bitxhub-kit/log"
	"github.com/meshplus/bitxhub-kit/storage"
	"github.com/meshplus/bitxhub-kit/storage/blockfile"
	"github.com/meshplus/bitxhub-kit/storage/leveldb"
	"github.com/meshplus/bitxhub-kit/types"
	"github.com/meshplus/bitxhub-model/constant"
	"github.com/meshplus/bitxhub-model/pb"
	"github.com/meshplus/bitxhub/internal/executor/oracle/appchain"
	"github.com/meshplus/bitxhub/internal/ledger"
	"github.com/meshplus/bitxhub/internal/model/events"
	ethkittypes "github.com/meshplus/eth-kit/types"
	"github.com/stretchr/testify/assert"
	"github.com/stretchr/testify/require"
)

// C10: "The state root of a block is a function only of the previous root and the set of state
// changes made in the block: the same changes applied in a different order ... give the same root".
//
// Every test below runs REAL blocks through BlockExecutor.ExecuteBlock on a real ledger (leveldb +
// block file); the state root is read from the header of the executed block. The transactions are
// ordinary signed BxhTransactions any client can submit:
//
//   txFail   a NORMAL transfer whose sender can afford the amount but not the gas fee:
//            applyTransaction -> applyBxhTransaction -> transfer() = SetBalance(from), SetBalance(to)
//            -> payGasFee fails -> revert() = RevertToSnapshot -> balanceChange.revert -> setBalance(prev)
//            -> payLeftAsGasFee.  The receiver keeps a dirtyAccount copy although nothing changed.
//   txStore  a BVM invoke of Store.Set (storage write on the Store contract account).
//   txDeploy an XVM deploy whose sender cannot pay the gas fee: wasm deploy() = SetCode(contractAddr)
//            -> payGasFee fails -> revert() -> codeChange.revert -> setCodeAndHash(nil) which leaves
//            CodeHash = keccak256("") on an account that had CodeHash = nil.

const findingGasPrice = 5000000

type findingNode struct {
	t    *testing.T
	ldb  storage.Storage
	ldg  *ledger.Ledger
	exec *BlockExecutor
	ch   chan events.ExecutedEvent
}

// newFindingNode opens a fresh ledger, writes block 1 (funding only, the way genesis funds admins) and starts
// an executor on it.
func newFindingNode(t *testing.T, funding map[*types.Address]int64) *findingNode {
	repoRoot, err := ioutil.TempDir("", "finding")
	require.Nil(t, err)
	blockchainStorage, err := leveldb.New(filepath.Join(repoRoot, "storage"))
	require.Nil(t, err)
	ldb, err := leveldb.New(filepath.Join(repoRoot, "ledger"))
	require.Nil(t, err)
	accountCache, err := ledger.NewAccountCache()
	require.Nil(t, err)
	blockFile, err := blockfile.NewBlockFile(repoRoot, log.NewWithModule("finding"))
	require.Nil(t, err)
	ldg, err := ledger.New(createMockRepo(t), blockchainStorage, ldb, blockFile, accountCache, log.NewWithModule("ledger"))
	require.Nil(t, err)

	for addr, amount := range funding {
		ldg.SetBalance(addr, big.NewInt(amount))
	}
	accounts, journal := ldg.FlushDirtyData()
	require.Nil(t, ldg.Commit(1, accounts, journal))
	require.Nil(t, ldg.PersistExecutionResult(findingBlock(1, nil), nil, &pb.InterchainMeta{}))

	exec, err := New(ldg, log.NewWithModule("executor"), &appchain.Client{}, generateMockConfig(t), big.NewInt(findingGasPrice))
	require.Nil(t, err)
	require.Nil(t, exec.Start())

	n := &findingNode{t: t, ldb: ldb, ldg: ldg, exec: exec, ch: make(chan events.ExecutedEvent, 4)}
	sub := exec.SubscribeBlockEvent(n.ch)
	t.Cleanup(func() {
		sub.Unsubscribe()
		_ = exec.Stop()
	})
	return n
}

func findingBlock(number uint64, txs []pb.Transaction) *pb.Block {
	block := &pb.Block{
		BlockHeader:  &pb.BlockHeader{Number: number, Timestamp: 1600000000},
		Transactions: &pb.Transactions{Transactions: txs},
	}
	block.BlockHash = block.Hash()
	return block
}

// execute runs one block through the executor and returns its state root.
func (n *findingNode) execute(number uint64, txs ...pb.Transaction) string {
	n.exec.ExecuteBlock(&pb.CommitEvent{Block: findingBlock(number, txs), LocalList: make([]bool, len(txs))})
	select {
	case ev := <-n.ch:
		require.EqualValues(n.t, number, ev.Block.Height())
		return ev.Block.BlockHeader.StateRoot.String()
	case <-time.After(20 * time.Second):
		n.t.Fatal("block was not executed")
	}
	return ""
}

func (n *findingNode) status(tx pb.Transaction) pb.Receipt_Status {
	receipt, err := n.ldg.GetReceipt(tx.GetHash())
	require.Nil(n.t, err)
	return receipt.Status
}

// accountRecord returns the stored account record (nil when the address has none).
func (n *findingNode) accountRecord(addr *types.Address) string {
	return string(n.ldb.Get([]byte("account-" + addr.String())))
}

func findingKey(t *testing.T) (crypto.PrivateKey, *types.Address) {
	key, err := asym.GenerateKeyPair(crypto.Secp256k1)
	require.Nil(t, err)
	addr, err := key.PublicKey().Address()
	require.Nil(t, err)
	return key, addr
}

func findingTx(t *testing.T, key crypto.PrivateKey, to *types.Address, data *pb.TransactionData) pb.Transaction {
	from, err := key.PublicKey().Address()
	require.Nil(t, err)
	payload, err := data.Marshal()
	require.Nil(t, err)
	tx := &pb.BxhTransaction{From: from, To: to, Timestamp: 1600000000, Payload: payload, Nonce: 0}
	require.Nil(t, tx.Sign(key))
	tx.TransactionHash = tx.Hash()
	return tx
}

func findingTransfer(t *testing.T, key crypto.PrivateKey, to *types.Address, amount string) pb.Transaction {
	return findingTx(t, key, to, &pb.TransactionData{Type: pb.TransactionData_NORMAL, Amount: amount})
}

func findingStoreSet(t *testing.T, key crypto.PrivateKey, k, v string) pb.Transaction {
	payload, err := (&pb.InvokePayload{Method: "Set", Args: []*pb.Arg{pb.String(k), pb.String(v)}}).Marshal()
	require.Nil(t, err)
	return findingTx(t, key, constant.StoreContractAddr.Address(),
		&pb.TransactionData{Type: pb.TransactionData_INVOKE, VmType: pb.TransactionData_BVM, Payload: payload})
}

// xvmContractAddress is the address pkg/vm/wasm deploy() derives for the contract: sha256(caller || nonce)[12:].
func xvmContractAddress(caller *types.Address, nonce uint64) *types.Address {
	nonceBytes := make([]byte, 8)
	binary.LittleEndian.PutUint64(nonceBytes, nonce)
	sum := sha256.Sum256(append(append([]byte{}, caller.Bytes()...), nonceBytes...))
	return types.NewAddress(sum[12:])
}

const richBalance = int64(21000 * findingGasPrice * 1000)

// 1. The same two transactions in the two possible orders. Their effects commute (one drains its sender into
// the admins, the other writes Store["k"] and pays its fee), so both blocks make the same set of state changes.
// The Store contract account is a storage-only account (no account record). When the failed transfer towards it
// comes AFTER the storage write, the reverted SetBalance leaves dirtyAccount = {0,0,nil} next to origin = nil:
// the failed transaction creates an account record and the root differs from the other order.
func TestFindingC10_FailedTransferOrder(t *testing.T) {
	richKey, rich := loadAdminKey(t)
	poorKey, poor := findingKey(t)
	store := constant.StoreContractAddr.Address()

	txStore := findingStoreSet(t, richKey, "k", "v")
	txFail := findingTransfer(t, poorKey, store, "5")

	funding := map[*types.Address]int64{rich: richBalance, poor: 10}
	nodeX := newFindingNode(t, funding)
	nodeY := newFindingNode(t, funding)

	rootX := nodeX.execute(2, txFail, txStore)
	rootY := nodeY.execute(2, txStore, txFail)

	for _, n := range []*findingNode{nodeX, nodeY} {
		require.Equal(t, pb.Receipt_SUCCESS, n.status(txStore))
		require.Equal(t, pb.Receipt_FAILED, n.status(txFail))
		require.EqualValues(t, 0, n.ldg.Copy().GetBalance(poor).Uint64())
		require.EqualValues(t, 0, n.ldg.Copy().GetBalance(store).Uint64())
	}
	assert.Equal(t, nodeX.accountRecord(store), nodeY.accountRecord(store),
		"a failed (reverted) transfer must not create an account record for its receiver")
	require.Equal(t, rootX, rootY, "same previous root, same state changes in a different order: roots must be equal")
}

// 2. The receiver of the failed transfer has an account record (it was funded in block 1) and its storage is
// written by another transaction of the block. Compared with a block in which the failed transfer goes to an
// unrelated fresh address (same effects: sender drained into the admins), the touched-and-restored account copy is
// hashed into the root (getDirtyData appends dirtyAccount.Marshal() whenever dirtyAccount != nil).
func TestFindingC10_RevertedTransferIsHashed(t *testing.T) {
	richKey, rich := loadAdminKey(t)
	poorKey, poor := findingKey(t)
	_, other := findingKey(t)
	store := constant.StoreContractAddr.Address()

	txStore := findingStoreSet(t, richKey, "k", "v")
	txFailStore := findingTransfer(t, poorKey, store, "5")
	txFailOther := findingTransfer(t, poorKey, other, "5")

	funding := map[*types.Address]int64{rich: richBalance, poor: 10, store: 7}
	nodeX := newFindingNode(t, funding)
	nodeY := newFindingNode(t, funding)

	rootX := nodeX.execute(2, txFailStore, txStore)
	rootY := nodeY.execute(2, txFailOther, txStore)

	require.Equal(t, pb.Receipt_FAILED, nodeX.status(txFailStore))
	require.Equal(t, pb.Receipt_FAILED, nodeY.status(txFailOther))
	for _, n := range []*findingNode{nodeX, nodeY} {
		require.Equal(t, pb.Receipt_SUCCESS, n.status(txStore))
		require.EqualValues(t, 0, n.ldg.Copy().GetBalance(poor).Uint64())
		require.EqualValues(t, 7, n.ldg.Copy().GetBalance(store).Uint64())
		require.EqualValues(t, 0, n.ldg.Copy().GetBalance(other).Uint64())
	}
	require.Equal(t, nodeX.accountRecord(store), nodeY.accountRecord(store))
	require.Equal(t, "", nodeY.accountRecord(other))
	require.Equal(t, rootX, rootY, "same previous root and same state changes: a reverted balance write must not be hashed")
}

// 3. A block whose only transaction FAILED changes a third account. The XVM deploy of `poor` cannot pay its fee
// and is reverted; the contract address it would have used (sha256(sender || nonce), predictable, anybody can
// send coins to it beforehand - here it is funded in block 1) is left with CodeHash = keccak256("") instead
// of nil, its record is rewritten and the root differs from that of a block in which `poor` fails with a
// transaction that has the same effects (sender drained into the admins, nonce 1) but never calls SetCode.
func TestFindingC10_RevertedDeployChangesCodeHash(t *testing.T) {
	_, rich := loadAdminKey(t)
	poorKey, poor := findingKey(t)
	_, other := findingKey(t)

	wasmCode, err := ioutil.ReadFile(filepath.Join("..", "..", "pkg", "vm", "wasm", "testdata", "ledger_test_gc.wasm"))
	require.Nil(t, err)
	txDeploy := findingTx(t, poorKey, nil,
		&pb.TransactionData{Type: pb.TransactionData_INVOKE, VmType: pb.TransactionData_XVM, Payload: wasmCode})
	txFailOther := findingTransfer(t, poorKey, other, "5")
	contractAddr := xvmContractAddress(poor, 0)

	funding := map[*types.Address]int64{rich: richBalance, poor: 10, contractAddr: 7}
	nodeX := newFindingNode(t, funding)
	nodeY := newFindingNode(t, funding)
	before := nodeX.accountRecord(contractAddr)
	require.NotEqual(t, "", before)
	require.Equal(t, before, nodeY.accountRecord(contractAddr))

	rootX := nodeX.execute(2, txDeploy)
	rootY := nodeY.execute(2, txFailOther)

	receipt, err := nodeX.ldg.GetReceipt(txDeploy.GetHash())
	require.Nil(t, err)
	require.Equal(t, pb.Receipt_FAILED, receipt.Status)
	require.Contains(t, string(receipt.Ret), "insufficient balance", "the deploy itself succeeded, only the fee could not be paid")
	require.Equal(t, pb.Receipt_FAILED, nodeY.status(txFailOther))
	for _, n := range []*findingNode{nodeX, nodeY} {
		require.EqualValues(t, 0, n.ldg.Copy().GetBalance(poor).Uint64())
		require.EqualValues(t, 1, n.ldg.Copy().GetNonce(poor))
		require.EqualValues(t, 7, n.ldg.Copy().GetBalance(contractAddr).Uint64())
		require.Nil(t, n.ldg.Copy().GetCode(contractAddr))
	}
	assert.Equal(t, before, nodeX.accountRecord(contractAddr),
		"a reverted SetCode must leave the account record as it was (CodeHash null, not keccak256 of the empty string)")
	require.Equal(t, rootX, rootY, "a reverted deploy must not change the state root")
}

// 4. No revert at all: an EVM contract that stores a slot and sends the value it was called with straight back
// to the caller (SSTORE; CALL(caller, callvalue)). Called with value 5 its balance goes 0 -> 5 -> 0 inside the
// transaction (AddEVMBalance / SubEVMBalance = SetBalance twice), called with value 0 its balance is never written
// (AddBalance / SubBalance skip a zero amount). With gas price 0 both blocks make exactly the same state changes
// (sender nonce 1, slot 0 = 1); the block in which the balance was moved in and out hashes the unchanged account
// record in addition.
func TestFindingC10_BalanceInAndOutIsHashed(t *testing.T) {
	_, rich := loadAdminKey(t)
	ethKey, err := ethcrypto.GenerateKey()
	require.Nil(t, err)
	sender := types.NewAddress(ethcrypto.PubkeyToAddress(ethKey.PublicKey).Bytes())
	contract := types.NewAddressByStr("0x00000000000000000000000000000000000c0de1")
	// PUSH1 1 PUSH1 0 SSTORE | PUSH1 0 x4 CALLVALUE CALLER GAS CALL | STOP
	code := common.FromHex("6001600055" + "6000600060006000" + "34335af1" + "00")

	call := func(value int64) pb.Transaction {
		to := common.BytesToAddress(contract.Bytes())
		signed, err := ethtypes.SignTx(ethtypes.NewTx(&ethtypes.LegacyTx{
			Nonce: 0, GasPrice: big.NewInt(0), Gas: 200000, To: &to, Value: big.NewInt(value),
		}), ethtypes.HomesteadSigner{}, ethKey)
		require.Nil(t, err)
		raw, err := signed.MarshalBinary()
		require.Nil(t, err)
		tx := &ethkittypes.EthTransaction{}
		require.Nil(t, tx.UnmarshalBinary(raw))
		require.Equal(t, sender.String(), tx.GetFrom().String())
		return tx
	}
	txInOut := call(5)
	txPlain := call(0)

	nodes := []*findingNode{
		newFindingNode(t, map[*types.Address]int64{rich: richBalance, sender: 100}),
		newFindingNode(t, map[*types.Address]int64{rich: richBalance, sender: 100}),
	}
	var roots [3]string
	for i, n := range nodes {
		// block 2 (set-up, identical on both nodes): the contract account gets its code
		n.ldg.SetCode(contract, code)
		accounts, root := n.ldg.FlushDirtyData()
		require.Nil(t, n.ldg.Commit(2, accounts, root))
		require.Nil(t, n.ldg.PersistExecutionResult(findingBlock(2, nil), nil, &pb.InterchainMeta{}))
		n.exec.currentHeight = 2
		roots[2] = root.String()
		tx := []pb.Transaction{txInOut, txPlain}[i]
		roots[i] = n.execute(3, tx)
		require.Equal(t, pb.Receipt_SUCCESS, n.status(tx))
		require.EqualValues(t, 100, n.ldg.Copy().GetBalance(sender).Uint64())
		require.EqualValues(t, 1, n.ldg.Copy().GetNonce(sender))
		require.EqualValues(t, 0, n.ldg.Copy().GetBalance(contract).Uint64())
		ok, slot := n.ldg.Copy().GetState(contract, common.Hash{}.Bytes())
		require.True(t, ok)
		require.Equal(t, common.BigToHash(big.NewInt(1)).Bytes(), slot)
	}
	require.Equal(t, nodes[0].accountRecord(contract), nodes[1].accountRecord(contract))
	require.Equal(t, roots[0], roots[1], "same previous root and same state changes: an unchanged account record must not be hashed")
}
