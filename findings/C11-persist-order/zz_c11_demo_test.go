package ledger

import (
	"io/ioutil"
	"math/big"
	"path/filepath"
	"strconv"
	"testing"

	"github.com/meshplus/bitxhub-kit/bytesutil"
	"github.com/meshplus/bitxhub-kit/log"
	"github.com/meshplus/bitxhub-kit/storage"
	"github.com/meshplus/bitxhub-kit/storage/blockfile"
	"github.com/meshplus/bitxhub-kit/storage/leveldb"
	"github.com/meshplus/bitxhub-kit/types"
	"github.com/meshplus/bitxhub-model/pb"
	"github.com/stretchr/testify/require"
)

// dropStore: once dead, no write reaches the disk any more (the process is gone for this store).
type dropStore struct {
	storage.Storage
	dead bool
}

func (s *dropStore) Put(k, v []byte) {
	if !s.dead {
		s.Storage.Put(k, v)
	}
}
func (s *dropStore) Delete(k []byte) {
	if !s.dead {
		s.Storage.Delete(k)
	}
}
func (s *dropStore) NewBatch() storage.Batch { return &dropBatch{Batch: s.Storage.NewBatch(), s: s} }

type dropBatch struct {
	storage.Batch
	s *dropStore
}

func (b *dropBatch) Commit() {
	if !b.s.dead {
		b.Batch.Commit()
	}
}

var zzAddr = types.NewAddress(bytesutil.LeftPadBytes([]byte{77}, 20))

func zzOpen(t *testing.T, root string) (*Ledger, *dropStore, *dropStore, error) {
	chainDB, err := leveldb.New(filepath.Join(root, "storage"))
	require.Nil(t, err)
	stateDB, err := leveldb.New(filepath.Join(root, "ledger"))
	require.Nil(t, err)
	bf, err := blockfile.NewBlockFile(root, log.NewWithModule("bf"))
	require.Nil(t, err)
	cs, ss := &dropStore{Storage: chainDB}, &dropStore{Storage: stateDB}
	lg, err := New(createMockRepo(t), cs, ss, bf, nil, log.NewWithModule("ledger"))
	if err != nil {
		chainDB.Close()
		stateDB.Close()
		bf.Close()
	}
	return lg, cs, ss, err
}

func zzExec(lg *Ledger, i uint64) *BlockData {
	lg.PrepareBlock(nil, i)
	bal := lg.GetBalance(zzAddr)
	lg.SetBalance(zzAddr, new(big.Int).Add(bal, big.NewInt(10)))
	lg.SetState(zzAddr, []byte("k"), []byte(strconv.FormatUint(i, 10)), nil)
	accounts, root := lg.FlushDirtyData()
	block := &pb.Block{BlockHeader: &pb.BlockHeader{Number: i, StateRoot: root}, Transactions: &pb.Transactions{}}
	block.BlockHash = block.Hash()
	return &BlockData{Block: block, Accounts: accounts, InterchainMeta: &pb.InterchainMeta{}}
}

func zzCheckRecovered(t *testing.T, root string, n uint64) {
	lg, _, _, err := zzOpen(t, root)
	require.Nil(t, err, "the ledger must open after the crash")
	defer lg.Close()
	h := lg.GetChainMeta().Height
	require.True(t, h == n || h == n+1, "recovered height %d", h)
	require.Equal(t, h, lg.Version(), "state version = head")
	if h > 0 {
		_, err = lg.GetBlock(h, false)
		require.Nil(t, err, "head block readable")
	}
	require.Equal(t, int64(10*h), lg.GetBalance(zzAddr).Int64(), "state content of the head height")
	for i := h + 1; i <= n+2; i++ {
		lg.PersistBlockData(zzExec(lg, i))
	}
	require.Equal(t, n+2, lg.GetChainMeta().Height)
}

// A: the chain goroutine finished, the state goroutine had not committed when the process died.
func TestZZC11_ChainAheadOfState(t *testing.T) {
	root, _ := ioutil.TempDir("", "zzc11a")
	lg, _, ss, err := zzOpen(t, root)
	require.Nil(t, err)
	for i := uint64(1); i <= 3; i++ {
		lg.PersistBlockData(zzExec(lg, i))
	}
	bd := zzExec(lg, 4)
	ss.dead = true
	lg.PersistBlockData(bd)
	lg.Close()
	zzCheckRecovered(t, root, 3)
}

// B: the index batch (chain meta) was committed, the blockfile append had not reached the disk.
func TestZZC11_IndexAheadOfBlockfile(t *testing.T) {
	root, _ := ioutil.TempDir("", "zzc11b")
	lg, _, _, err := zzOpen(t, root)
	require.Nil(t, err)
	for i := uint64(1); i <= 4; i++ {
		lg.PersistBlockData(zzExec(lg, i))
	}
	lg.Close()
	bf, err := blockfile.NewBlockFile(root, log.NewWithModule("bf"))
	require.Nil(t, err)
	require.Nil(t, bf.TruncateBlocks(3))
	bf.Close()
	zzCheckRecovered(t, root, 3)
}

// C: the blockfile append was written, the index batch was not.
func TestZZC11_BlockfileAheadOfIndex(t *testing.T) {
	root, _ := ioutil.TempDir("", "zzc11c")
	lg, cs, _, err := zzOpen(t, root)
	require.Nil(t, err)
	for i := uint64(1); i <= 3; i++ {
		lg.PersistBlockData(zzExec(lg, i))
	}
	bd := zzExec(lg, 4)
	cs.dead = true
	lg.PersistBlockData(bd)
	lg.Close()
	zzCheckRecovered(t, root, 3)
}
