package ledger

import (
	"fmt"
	"io/ioutil"
	"path/filepath"
	"testing"

	"github.com/meshplus/bitxhub-kit/log"
	"github.com/meshplus/bitxhub-kit/storage"
	"github.com/meshplus/bitxhub-kit/storage/blockfile"
	"github.com/meshplus/bitxhub-kit/storage/leveldb"
	"github.com/stretchr/testify/require"
)

// global crash controller shared by the chain store and the state store: the process dies
// right before the crashAt-th durable write (Put/Delete/batch Commit) of either store.
type zzCtl struct {
	armed   bool
	ops     int
	crashAt int
	log     []string
}
type zzCrash struct{}

func (c *zzCtl) durable(what string) {
	if !c.armed {
		return
	}
	c.ops++
	c.log = append(c.log, what)
	if c.crashAt != 0 && c.ops == c.crashAt {
		c.armed = false
		panic(zzCrash{})
	}
}

type ctlStore struct {
	storage.Storage
	c    *zzCtl
	name string
}

func (s *ctlStore) Put(k, v []byte) { s.c.durable(s.name + ".Put"); s.Storage.Put(k, v) }
func (s *ctlStore) Delete(k []byte) { s.c.durable(s.name + ".Delete"); s.Storage.Delete(k) }
func (s *ctlStore) NewBatch() storage.Batch {
	return &ctlBatch{Batch: s.Storage.NewBatch(), s: s}
}

type ctlBatch struct {
	storage.Batch
	s *ctlStore
}

func (b *ctlBatch) Commit() { b.s.c.durable(b.s.name + ".Commit"); b.Batch.Commit() }

func zzOpenCtl(t *testing.T, root string, c *zzCtl) (*Ledger, func()) {
	chainDB, err := leveldb.New(filepath.Join(root, "storage"))
	require.Nil(t, err)
	stateDB, err := leveldb.New(filepath.Join(root, "ledger"))
	require.Nil(t, err)
	bf, err := blockfile.NewBlockFile(root, log.NewWithModule("bf"))
	require.Nil(t, err)
	lg, err := New(createMockRepo(t), &ctlStore{chainDB, c, "chain"}, &ctlStore{stateDB, c, "state"}, bf, nil, log.NewWithModule("ledger"))
	require.Nil(t, err)
	return lg, func() { chainDB.Close(); stateDB.Close(); bf.Close() }
}

func zzScenario(t *testing.T, n uint64, crashAt int) (int, []string) {
	root, _ := ioutil.TempDir("", "zzc11f")
	c := &zzCtl{}
	lg, closeAll := zzOpenCtl(t, root, c)
	for i := uint64(1); i <= n; i++ {
		lg.PersistBlockData(zzExec(lg, i))
	}
	bd := zzExec(lg, n+1)
	c.armed, c.crashAt = true, crashAt
	func() {
		defer func() {
			if r := recover(); r != nil {
				if _, ok := r.(zzCrash); !ok {
					panic(r)
				}
			}
		}()
		lg.PersistBlockData(bd)
	}()
	c.armed = false
	closeAll()
	zzCheckRecovered(t, root, n)
	return c.ops, c.log
}

func TestZZC11_EveryCrashPoint(t *testing.T) {
	for _, n := range []uint64{0, 3, 12} {
		total, oplog := zzScenario(t, n, 0)
		t.Logf("height %d: durable writes %v", n+1, oplog)
		for k := 1; k <= total; k++ {
			n, k := n, k
			t.Run(fmt.Sprintf("height%d_crashBefore%dof%d", n+1, k, total), func(t *testing.T) { zzScenario(t, n, k) })
		}
	}
}
