package executor

// Finding N1 against property C16 ("only available, permitted services interchange; objects
// obey their lifecycle").
//
// A service that was FROZEN by an approved FreezeService proposal becomes "available" again,
// and interchanges again, after ANY pause / un-pause cycle of its appchain - no ActivateService
// proposal is ever submitted:
//
//   pauseService   : frozen -> pause      (ServiceManager.PauseChainService, cascade of the appchain)
//   unPauseService : pause  -> available  (ServiceManager.UnPauseChainService)
//
// The pause does not remember the status it replaced, and the un-pause always ends in
// "available".
//
// The tests drive the REAL block executor (real ledger on leveldb, real BoltVM, real
// governance / appchain / rule / role / service / interchain / transaction contracts): every
// step is a signed transaction executed in its own block through
// BlockExecutor.processExecuteEvent; nothing is mocked. (Harness borrowed from the C16 seed
// demonstration.)

import (
	"encoding/json"
	"fmt"
	"io/ioutil"
	"math/big"
	"path/filepath"
	"strings"
	"testing"
	"time"

	"github.com/meshplus/bitxhub-core/agency"
	appchainMgr "github.com/meshplus/bitxhub-core/appchain-mgr"
	"github.com/meshplus/bitxhub-core/governance"
	ruleMgr "github.com/meshplus/bitxhub-core/rule-mgr"
	serviceMgr "github.com/meshplus/bitxhub-core/service-mgr"
	"github.com/meshplus/bitxhub-core/validator"
	"github.com/meshplus/bitxhub-kit/crypto"
	"github.com/meshplus/bitxhub-kit/crypto/asym"
	"github.com/meshplus/bitxhub-kit/log"
	"github.com/meshplus/bitxhub-kit/storage/blockfile"
	"github.com/meshplus/bitxhub-kit/storage/leveldb"
	"github.com/meshplus/bitxhub-kit/types"
	"github.com/meshplus/bitxhub-model/constant"
	"github.com/meshplus/bitxhub-model/pb"
	"github.com/meshplus/bitxhub/internal/executor/contracts"
	"github.com/meshplus/bitxhub/internal/executor/oracle/appchain"
	"github.com/meshplus/bitxhub/internal/ledger"
	"github.com/meshplus/bitxhub/internal/repo"
	"github.com/stretchr/testify/require"
)

type fndActor struct {
	key  crypto.PrivateKey
	addr *types.Address
}

type fndEnv struct {
	t      *testing.T
	exec   *BlockExecutor
	ldg    *ledger.Ledger
	height uint64
	nonce  uint64
	bxhID  string
}

func newFndActor(t *testing.T) *fndActor {
	key, err := asym.GenerateKeyPair(crypto.Secp256k1)
	require.Nil(t, err)
	addr, err := key.PublicKey().Address()
	require.Nil(t, err)
	return &fndActor{key: key, addr: addr}
}

// newFndEnv builds a ledger holding the genesis state (one super governance admin, the
// bitxhub id) and a block executor on top of it.
func newFndEnv(t *testing.T, admin *fndActor) *fndEnv {
	config, err := repo.DefaultConfig()
	require.Nil(t, err)
	config.Genesis.Admins = []*repo.Admin{{Address: admin.addr.String(), Weight: repo.SuperAdminWeight}}

	repoRoot, err := ioutil.TempDir("", "finding-c16-n1")
	require.Nil(t, err)
	blockchainStorage, err := leveldb.New(filepath.Join(repoRoot, "storage"))
	require.Nil(t, err)
	ldb, err := leveldb.New(filepath.Join(repoRoot, "ledger"))
	require.Nil(t, err)
	accountCache, err := ledger.NewAccountCache()
	require.Nil(t, err)
	blockFile, err := blockfile.NewBlockFile(repoRoot, log.NewWithModule("seed"))
	require.Nil(t, err)
	ldg, err := ledger.New(createMockRepo(t), blockchainStorage, ldb, blockFile, accountCache, log.NewWithModule("ledger"))
	require.Nil(t, err)

	bxhID := fmt.Sprintf("%d", config.ChainID)

	// genesis block: the same state internal/ledger/genesis writes
	ldg.PrepareBlock(nil, 1)
	role := &contracts.Role{
		ID:       admin.addr.String(),
		RoleType: contracts.GovernanceAdmin,
		Weight:   repo.SuperAdminWeight,
		Status:   governance.GovernanceAvailable,
	}
	roleData, err := json.Marshal(role)
	require.Nil(t, err)
	ldg.SetState(constant.RoleContractAddr.Address(), []byte(contracts.RoleKey(role.ID)), roleData, nil)
	idMapData, err := json.Marshal(map[string]struct{}{role.ID: {}})
	require.Nil(t, err)
	ldg.SetState(constant.RoleContractAddr.Address(), []byte(contracts.RoleTypeKey(string(contracts.GovernanceAdmin))), idMapData, nil)
	ldg.SetState(constant.RoleContractAddr.Address(), []byte(contracts.GenesisBalance), []byte("100000000"), nil)
	ldg.SetState(constant.InterchainContractAddr.Address(), []byte(contracts.BitXHubID), []byte(bxhID), nil)

	exec, err := New(ldg, log.NewWithModule("executor"), &appchain.Client{}, config, big.NewInt(0))
	require.Nil(t, err)
	for addr := range exec.GetBoltContracts() {
		ldg.SetNonce(types.NewAddressByStr(addr), 1)
	}
	accounts, stateRoot := ldg.FlushDirtyData()
	genesis := &pb.Block{
		BlockHeader: &pb.BlockHeader{
			Number:      1,
			StateRoot:   stateRoot,
			TxRoot:      &types.Hash{},
			ReceiptRoot: &types.Hash{},
			ParentHash:  &types.Hash{},
			Bloom:       &types.Bloom{},
			Timestamp:   time.Now().UnixNano(),
		},
		Transactions: &pb.Transactions{},
	}
	genesis.BlockHash = genesis.Hash()
	ldg.PersistBlockData(&ledger.BlockData{Block: genesis, Accounts: accounts, InterchainMeta: &pb.InterchainMeta{}})

	// the executor reads the chain meta when it is created: create it again on top of the genesis block
	exec, err = New(ldg, log.NewWithModule("executor"), &appchain.Client{}, config, big.NewInt(0))
	require.Nil(t, err)
	require.EqualValues(t, 1, exec.currentHeight)

	return &fndEnv{t: t, exec: exec, ldg: ldg, height: 1, bxhID: bxhID}
}

// run executes one transaction in a block of its own and returns its receipt.
func (e *fndEnv) run(tx pb.Transaction) *pb.Receipt {
	e.height++
	block := mockBlock(e.height, []pb.Transaction{tx})
	// a non-nil Extra makes the executor skip the (appchain specific) IBTP proof verification
	block.Extra = []byte("no proof verification")
	e.exec.processExecuteEvent(&BlockWrapper{block: block, invalidTx: map[int]agency.InvalidReason{}})
	require.EqualValues(e.t, e.height, e.exec.currentHeight)
	receipt, err := e.ldg.GetReceipt(tx.GetHash())
	require.Nil(e.t, err)
	return receipt
}

// invoke sends a BVM contract invocation signed by the actor.
func (e *fndEnv) invoke(who *fndActor, contract constant.BoltContractAddress, method string, args ...*pb.Arg) *pb.Receipt {
	e.nonce++
	tx, err := genBVMContractTransaction(who.key, e.nonce, contract.Address(), method, args...)
	require.Nil(e.t, err)
	return e.run(tx)
}

func (e *fndEnv) mustInvoke(who *fndActor, contract constant.BoltContractAddress, method string, args ...*pb.Arg) *pb.Receipt {
	r := e.invoke(who, contract, method, args...)
	require.True(e.t, r.IsSuccess(), "%s failed: %s", method, string(r.Ret))
	return r
}

func (e *fndEnv) proposalID(r *pb.Receipt) string {
	gr := &governance.GovernanceResult{}
	require.Nil(e.t, json.Unmarshal(r.Ret, gr), string(r.Ret))
	require.NotEmpty(e.t, gr.ProposalID)
	return gr.ProposalID
}

func (e *fndEnv) vote(admin *fndActor, proposalID, ballot string) *pb.Receipt {
	return e.invoke(admin, constant.GovernanceContractAddr, "Vote", pb.String(proposalID), pb.String(ballot), pb.String("reason"))
}

func (e *fndEnv) proposalStatus(id string) contracts.ProposalStatus {
	ok, data := e.ldg.GetState(constant.GovernanceContractAddr.Address(), []byte(contracts.ProposalKey(id)))
	require.True(e.t, ok)
	p := &contracts.Proposal{}
	require.Nil(e.t, json.Unmarshal(data, p))
	return p.Status
}

func (e *fndEnv) chainStatus(id string) governance.GovernanceStatus {
	ok, data := e.ldg.GetState(constant.AppchainMgrContractAddr.Address(), []byte(appchainMgr.AppchainKey(id)))
	require.True(e.t, ok)
	chain := &appchainMgr.Appchain{}
	require.Nil(e.t, json.Unmarshal(data, chain))
	return chain.Status
}

func (e *fndEnv) service(id string) *serviceMgr.Service {
	ok, data := e.ldg.GetState(constant.ServiceMgrContractAddr.Address(), []byte(serviceMgr.ServiceKey(id)))
	require.True(e.t, ok)
	service := &serviceMgr.Service{}
	require.Nil(e.t, json.Unmarshal(data, service))
	return service
}

func (e *fndEnv) masterRule(chainID string) *ruleMgr.Rule {
	ok, data := e.ldg.GetState(constant.RuleManagerContractAddr.Address(), []byte(ruleMgr.RuleKey(chainID)))
	require.True(e.t, ok)
	rules := make([]*ruleMgr.Rule, 0)
	require.Nil(e.t, json.Unmarshal(data, &rules))
	for _, r := range rules {
		if r.Master {
			return r
		}
	}
	return nil
}

// registerChain registers an appchain (fabric type, so that there are several built-in
// rules to switch between) with one service, both approved by the admin.
func (e *fndEnv) registerChain(admin, chainAdmin *fndActor, chainID, serviceID string) {
	broker := `{"channel_id":"mychannel","chaincode_id":"broker","broker_version":"1"}`
	r := e.mustInvoke(chainAdmin, constant.AppchainMgrContractAddr, "RegisterAppchain",
		pb.String(chainID),
		pb.String("name of "+chainID),
		pb.Bytes(nil),
		pb.String(appchainMgr.ChainTypeFabric1_4_3),
		pb.Bytes(nil),
		pb.String(broker),
		pb.String("desc"),
		pb.String(validator.HappyRuleAddr),
		pb.String(""),
		pb.String(chainAdmin.addr.String()),
		pb.String("reason"),
	)
	rv := e.vote(admin, e.proposalID(r), contracts.BallotApprove)
	require.True(e.t, rv.IsSuccess(), string(rv.Ret))
	require.Equal(e.t, governance.GovernanceAvailable, e.chainStatus(chainID))

	r = e.mustInvoke(chainAdmin, constant.ServiceMgrContractAddr, "RegisterService",
		pb.String(chainID),
		pb.String(serviceID),
		pb.String("service of "+chainID),
		pb.String(string(serviceMgr.ServiceCallContract)),
		pb.String("intro"),
		pb.Uint64(1),
		pb.String(""),
		pb.String("details"),
		pb.String("reason"),
	)
	rv = e.vote(admin, e.proposalID(r), contracts.BallotApprove)
	require.True(e.t, rv.IsSuccess(), string(rv.Ret))
	require.Equal(e.t, governance.GovernanceAvailable, e.service(chainID+":"+serviceID).Status)
}

// sendIBTP submits an interchain request from one service to another.
func (e *fndEnv) sendIBTP(sender *fndActor, from, to string, index uint64) *pb.Receipt {
	content := pb.Content{Func: "set"}
	contentData, err := content.Marshal()
	require.Nil(e.t, err)
	payload := pb.Payload{Content: contentData}
	payloadData, err := payload.Marshal()
	require.Nil(e.t, err)
	ibtp := &pb.IBTP{
		From:          from,
		To:            to,
		Index:         index,
		Type:          pb.IBTP_INTERCHAIN,
		TimeoutHeight: 10,
		Payload:       payloadData,
		Proof:         []byte("proof"),
	}
	e.nonce++
	tx := &pb.BxhTransaction{
		From:      sender.addr,
		To:        constant.InterchainContractAddr.Address(),
		Timestamp: time.Now().UnixNano(),
		Nonce:     e.nonce,
		IBTP:      ibtp,
	}
	require.Nil(e.t, tx.Sign(sender.key))
	tx.TransactionHash = tx.Hash()
	return e.run(tx)
}

const (
	fndChainA   = "chainA"
	fndChainB   = "chainB"
	fndServiceA = "0x00000000000000000000000000000000000000a9"
	fndServiceB = "0x00000000000000000000000000000000000000b9"
)

type fndScene struct {
	*fndEnv
	admin, adminA, adminB *fndActor
	fullA, fullB          string
	idxAB, idxBA          uint64
}

// newFndScene registers chainA and chainB with one service each, checks that both directions
// interchange, then has the governance admin freeze the service of chainA (FreezeService
// submitted and approved) and checks that it no longer interchanges.
func newFndScene(t *testing.T) *fndScene {
	s := &fndScene{admin: newFndActor(t), adminA: newFndActor(t), adminB: newFndActor(t)}
	s.fndEnv = newFndEnv(t, s.admin)
	s.registerChain(s.admin, s.adminA, fndChainA, fndServiceA)
	s.registerChain(s.admin, s.adminB, fndChainB, fndServiceB)
	s.fullA = fmt.Sprintf("%s:%s:%s", s.bxhID, fndChainA, fndServiceA)
	s.fullB = fmt.Sprintf("%s:%s:%s", s.bxhID, fndChainB, fndServiceB)

	require.True(t, s.fromA().IsSuccess())
	require.Equal(t, pb.TransactionStatus_BEGIN, s.toA().TxStatus)

	// governance freezes the service of chainA
	r := s.mustInvoke(s.admin, constant.ServiceMgrContractAddr, "FreezeService", pb.String(fndChainA+":"+fndServiceA), pb.String("reason"))
	rv := s.vote(s.admin, s.proposalID(r), contracts.BallotApprove)
	require.True(t, rv.IsSuccess(), string(rv.Ret))
	require.Equal(t, governance.GovernanceFrozen, s.svcStatus())
	s.requireNoInterchange("right after the approved FreezeService")
	return s
}

func (s *fndScene) svcStatus() governance.GovernanceStatus {
	return s.service(fndChainA + ":" + fndServiceA).Status
}

// fromA sends the next IBTP chainA:service -> chainB:service
func (s *fndScene) fromA() *pb.Receipt {
	r := s.sendIBTP(s.adminA, s.fullA, s.fullB, s.idxAB+1)
	if r.IsSuccess() {
		s.idxAB++
	}
	return r
}

// toA sends the next IBTP chainB:service -> chainA:service
func (s *fndScene) toA() *pb.Receipt {
	r := s.sendIBTP(s.adminB, s.fullB, s.fullA, s.idxBA+1)
	require.True(s.t, r.IsSuccess(), string(r.Ret))
	s.idxBA++
	return r
}

// requireNoInterchange: the service of chainA is not available, is refused as source of a
// request and a request to it is recorded as begin-failed (C16, first sentence).
func (s *fndScene) requireNoInterchange(when string) {
	st := s.svcStatus()
	rAB := s.fromA()
	rBA := s.toA()
	s.t.Logf("%s: service %q; IBTP from it: status=%v txStatus=%v; IBTP to it: txStatus=%v", when, st, rAB.Status, rAB.TxStatus, rBA.TxStatus)
	require.False(s.t, s.service(fndChainA+":"+fndServiceA).IsAvailable(),
		"C16/N1 %s: the service frozen by governance is %q although no ActivateService proposal was ever approved", when, st)
	require.False(s.t, rAB.IsSuccess(), "C16/N1 %s: the frozen service was accepted as source of an interchain request", when)
	require.True(s.t, strings.Contains(string(rAB.Ret), "not available"), string(rAB.Ret))
	require.Equal(s.t, pb.TransactionStatus_BEGIN_FAILURE, rBA.TxStatus,
		"C16/N1 %s: a request to the frozen service was recorded for execution", when)
}

func (s *fndScene) submitAndApprove(who *fndActor, contract constant.BoltContractAddress, method string, args ...*pb.Arg) {
	r := s.mustInvoke(who, contract, method, args...)
	rv := s.vote(s.admin, s.proposalID(r), contracts.BallotApprove)
	require.True(s.t, rv.IsSuccess(), "%s approve: %s", method, string(rv.Ret))
}

// Sequence of the notes: FreezeService approved; FreezeAppchain approved; ActivateAppchain
// approved. Production path: three governance proposals, each a BVM transaction of a chain /
// governance admin plus the Vote transaction of the governance admin:
//
//	Governance.Vote -> handleResult -> AppchainManager.Manage(freeze, approve)   -> ServiceManager.PauseChainService   -> pauseService
//	Governance.Vote -> handleResult -> AppchainManager.Manage(activate, approve) -> ServiceManager.UnPauseChainService -> unPauseService
func TestFindingC16N1FrozenServiceAcrossFreezeActivateOfItsAppchain(t *testing.T) {
	s := newFndScene(t)

	s.submitAndApprove(s.admin, constant.AppchainMgrContractAddr, "FreezeAppchain", pb.String(fndChainA), pb.String("reason"))
	require.Equal(t, governance.GovernanceFrozen, s.chainStatus(fndChainA))
	s.requireNoInterchange("appchain frozen")

	s.submitAndApprove(s.adminA, constant.AppchainMgrContractAddr, "ActivateAppchain", pb.String(fndChainA), pb.String("reason"))
	require.Equal(t, governance.GovernanceAvailable, s.chainStatus(fndChainA))

	// the appchain is back; its service is still frozen by governance
	s.requireNoInterchange("appchain activated again")
	require.Equal(t, governance.GovernanceFrozen, s.svcStatus())

	// the declared way out of "frozen" still works
	s.submitAndApprove(s.adminA, constant.ServiceMgrContractAddr, "ActivateService", pb.String(fndChainA+":"+fndServiceA), pb.String("reason"))
	require.Equal(t, governance.GovernanceAvailable, s.svcStatus())
	require.True(t, s.fromA().IsSuccess())
	require.Equal(t, pb.TransactionStatus_BEGIN, s.toA().TxStatus)
}

// The same escape without any approval at all: the admin of the appchain submits
// LogoutAppchain (the services are paused at submission) and withdraws its own proposal
// (handled as a rejection: the services are un-paused). Two transactions of the appchain
// admin undo a freeze decided by the governance admins.
//
//	AppchainManager.LogoutAppchain -> ServiceManager.PauseChainService
//	Governance.WithdrawProposal -> handleResult -> AppchainManager.Manage(logout, reject, lastStatus=available) -> ServiceManager.UnPauseChainService
func TestFindingC16N1FrozenServiceAcrossWithdrawnLogoutOfItsAppchain(t *testing.T) {
	s := newFndScene(t)

	r := s.mustInvoke(s.adminA, constant.AppchainMgrContractAddr, "LogoutAppchain", pb.String(fndChainA), pb.String("reason"))
	require.Equal(t, governance.GovernanceLogouting, s.chainStatus(fndChainA))
	s.requireNoInterchange("appchain logout pending")

	rw := s.invoke(s.adminA, constant.GovernanceContractAddr, "WithdrawProposal", pb.String(s.proposalID(r)), pb.String("changed my mind"))
	require.True(t, rw.IsSuccess(), string(rw.Ret))
	require.Equal(t, governance.GovernanceAvailable, s.chainStatus(fndChainA))

	s.requireNoInterchange("appchain logout withdrawn")
	require.Equal(t, governance.GovernanceFrozen, s.svcStatus())
}

// Companion of the repair: whatever the service manager answers to an ActivateService
// submitted while the appchain is frozen, the service never interchanges before the appchain
// itself is activated again, and it does afterwards only if its own activation was approved.
func TestFindingC16N1ActivateServiceWhileItsAppchainIsFrozen(t *testing.T) {
	s := newFndScene(t)

	s.submitAndApprove(s.admin, constant.AppchainMgrContractAddr, "FreezeAppchain", pb.String(fndChainA), pb.String("reason"))
	s.requireNoInterchange("appchain frozen")

	activated := false
	r := s.invoke(s.adminA, constant.ServiceMgrContractAddr, "ActivateService", pb.String(fndChainA+":"+fndServiceA), pb.String("reason"))
	if r.IsSuccess() {
		s.requireNoInterchange("ActivateService pending, appchain frozen")
		rv := s.vote(s.admin, s.proposalID(r), contracts.BallotApprove)
		require.True(t, rv.IsSuccess(), string(rv.Ret))
		activated = true
		s.requireNoInterchange("ActivateService approved, appchain frozen")
	} else {
		t.Logf("ActivateService refused while the appchain is frozen: %s", string(r.Ret))
	}

	s.submitAndApprove(s.adminA, constant.AppchainMgrContractAddr, "ActivateAppchain", pb.String(fndChainA), pb.String("reason"))
	if activated {
		require.Equal(t, governance.GovernanceAvailable, s.svcStatus())
		require.True(t, s.fromA().IsSuccess())
		require.Equal(t, pb.TransactionStatus_BEGIN, s.toA().TxStatus)
	} else {
		s.requireNoInterchange("appchain activated again, service never activated")
	}
}

// Second companion of the repair (sequence of note N2, same root cause): the ActivateService
// proposal of the frozen service is pending when the appchain is frozen and activated again.
// The service must not interchange until its own activate proposal is approved, and the
// approval of ActivateAppchain must not fail.
func TestFindingC16N1ActivateServicePendingAcrossFreezeActivateOfItsAppchain(t *testing.T) {
	s := newFndScene(t)

	r := s.mustInvoke(s.adminA, constant.ServiceMgrContractAddr, "ActivateService", pb.String(fndChainA+":"+fndServiceA), pb.String("reason"))
	serviceProposal := s.proposalID(r)
	require.Equal(t, governance.GovernanceActivating, s.svcStatus())

	s.submitAndApprove(s.admin, constant.AppchainMgrContractAddr, "FreezeAppchain", pb.String(fndChainA), pb.String("reason"))
	s.requireNoInterchange("appchain frozen, ActivateService pending")

	s.submitAndApprove(s.adminA, constant.AppchainMgrContractAddr, "ActivateAppchain", pb.String(fndChainA), pb.String("reason"))
	require.Equal(t, governance.GovernanceAvailable, s.chainStatus(fndChainA))
	s.requireNoInterchange("appchain activated again, ActivateService still pending")
	require.Equal(t, governance.GovernanceActivating, s.svcStatus())
	require.Equal(t, contracts.PROPOSED, s.proposalStatus(serviceProposal))

	rv := s.vote(s.admin, serviceProposal, contracts.BallotApprove)
	require.True(t, rv.IsSuccess(), string(rv.Ret))
	require.Equal(t, governance.GovernanceAvailable, s.svcStatus())
	require.True(t, s.fromA().IsSuccess())
	require.Equal(t, pb.TransactionStatus_BEGIN, s.toA().TxStatus)
}

// Third companion of the repair: an approved UpdateService (new name) moves a frozen service
// to "available" (service FSM of bitxhub-core). While the appchain is frozen this must not
// make the service interchange.
func TestFindingC16N1UpdateServiceWhileItsAppchainIsFrozen(t *testing.T) {
	s := newFndScene(t)

	s.submitAndApprove(s.admin, constant.AppchainMgrContractAddr, "FreezeAppchain", pb.String(fndChainA), pb.String("reason"))
	s.requireNoInterchange("appchain frozen")

	r := s.invoke(s.adminA, constant.ServiceMgrContractAddr, "UpdateService", pb.String(fndChainA+":"+fndServiceA),
		pb.String("new name of the service"), pb.String("intro"), pb.String(""), pb.String("new details"), pb.String("reason"))
	if r.IsSuccess() {
		require.Equal(t, governance.GovernanceUpdating, s.svcStatus())
		rv := s.vote(s.admin, s.proposalID(r), contracts.BallotApprove)
		require.True(t, rv.IsSuccess(), string(rv.Ret))
		s.requireNoInterchange("UpdateService approved, appchain frozen")
		require.Equal(t, governance.GovernancePause, s.svcStatus())
	} else {
		t.Logf("UpdateService refused while the appchain is frozen: %s", string(r.Ret))
	}
}

// Fourth companion of the repair: the frozen service of an appchain that logs out is
// cleared ("forbidden") with the other services of the appchain.
func TestFindingC16N1FrozenServiceIsClearedWhenItsAppchainLogsOut(t *testing.T) {
	s := newFndScene(t)

	s.submitAndApprove(s.adminA, constant.AppchainMgrContractAddr, "LogoutAppchain", pb.String(fndChainA), pb.String("reason"))
	require.Equal(t, governance.GovernanceForbidden, s.chainStatus(fndChainA))
	require.Equal(t, governance.GovernanceForbidden, s.svcStatus())
	s.requireNoInterchange("appchain logged out")
}
