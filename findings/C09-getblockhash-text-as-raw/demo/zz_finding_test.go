package ledger

import (
	"math/big"
	"testing"

	"github.com/ethereum/go-ethereum/common"
	"github.com/ethereum/go-ethereum/params"
	"github.com/meshplus/bitxhub-kit/bytesutil"
	"github.com/meshplus/bitxhub-kit/types"
	"github.com/meshplus/bitxhub-model/pb"
	vm "github.com/meshplus/eth-kit/evm"
	"github.com/stretchr/testify/require"
)

// Finding T03 / property C09: the height -> hash index (key block-height-<h>) is written
// by prepareBlock as the hex TEXT of the block hash and read by GetBlockHash as if it
// were the raw 32 bytes, so GetBlockHash(h) never equals the hash of the stored block h.
//
// Production path: every committed block goes BlockExecutor.persistData ->
// Ledger.PersistBlockData -> ChainLedgerImpl.PersistExecutionResult -> prepareBlock (writer).
// The reader is reached by any EVM transaction whose contract executes the BLOCKHASH
// opcode (solidity blockhash(n)): BlockExecutor.processExecuteEvent / ApplyReadonlyTransactions
// -> newEvm -> eth-kit evm.NewEVMBlockContext(..., chainLedger, ...) -> GetHashFn(chainLedger)
// -> opBlockhash -> ChainLedger.GetBlockHash(n).

// t03Persist commits a hand made block on top of the current head through the real
// Ledger.PersistBlockData (the function the executor's persist loop calls)
func t03Persist(t *testing.T, ldg *Ledger, txs ...pb.Transaction) *pb.Block {
	meta := ldg.GetChainMeta()
	height := meta.Height + 1

	ldg.PrepareBlock(nil, height)
	ldg.SetBalance(types.NewAddress(bytesutil.LeftPadBytes([]byte{100}, 20)), big.NewInt(int64(height)*1000))
	accounts, stateRoot := ldg.FlushDirtyData()

	parent := meta.BlockHash
	if parent == nil {
		parent = &types.Hash{}
	}
	block := &pb.Block{
		BlockHeader: &pb.BlockHeader{
			Number:     height,
			ParentHash: parent,
			StateRoot:  stateRoot,
			Timestamp:  int64(height),
		},
		Transactions: &pb.Transactions{Transactions: txs},
	}
	block.BlockHash = block.Hash()

	var receipts []*pb.Receipt
	var txHashes []*types.Hash
	for _, tx := range txs {
		receipts = append(receipts, &pb.Receipt{TxHash: tx.GetHash(), Status: pb.Receipt_SUCCESS})
		txHashes = append(txHashes, tx.GetHash())
	}
	ldg.PersistBlockData(&BlockData{
		Block:          block,
		Receipts:       receipts,
		Accounts:       accounts,
		InterchainMeta: &pb.InterchainMeta{},
		TxHashList:     txHashes,
	})
	return block
}

func t03Tx(nonce uint64) *pb.BxhTransaction {
	tx := &pb.BxhTransaction{
		From:      types.NewAddress(bytesutil.LeftPadBytes([]byte{200}, 20)),
		To:        types.NewAddress(bytesutil.LeftPadBytes([]byte{201}, 20)),
		Timestamp: int64(1000 + nonce),
		Nonce:     nonce,
		Payload:   []byte{byte(nonce)},
	}
	tx.TransactionHash = tx.Hash()
	return tx
}

// the lookup by height agrees with the stored block and with the lookup by hash,
// in the running node, after a restart, and not at all above a rollback target
func TestT03_GetBlockHashAgreesWithStoredBlock(t *testing.T) {
	ldg, root := initLedger(t, "")

	var blocks []*pb.Block
	blocks = append(blocks, t03Persist(t, ldg))                     // empty block
	blocks = append(blocks, t03Persist(t, ldg, t03Tx(1), t03Tx(2))) // two transactions
	blocks = append(blocks, t03Persist(t, ldg, t03Tx(3)))
	blocks = append(blocks, t03Persist(t, ldg))

	check := func(ldg *Ledger, upTo int) {
		for _, want := range blocks[:upTo] {
			h := want.BlockHeader.Number
			stored, err := ldg.GetBlock(h, false)
			require.Nil(t, err)
			require.Equal(t, want.BlockHash.String(), stored.BlockHash.String())
			require.Equal(t, stored.BlockHash.String(), stored.BlockHeader.Hash().String(), "block %d: hash of its header", h)

			got := ldg.GetBlockHash(h)
			require.NotNil(t, got)
			require.Equal(t, stored.BlockHash.Bytes(), got.Bytes(),
				"GetBlockHash(%d) = %s, the stored block %d has hash %s", h, got.String(), h, stored.BlockHash.String())

			// the two indexes are inverse to each other
			byHash, err := ldg.GetBlockByHash(got, false)
			require.Nil(t, err, "GetBlockByHash(GetBlockHash(%d))", h)
			require.EqualValues(t, h, byHash.BlockHeader.Number)
		}
		for _, gone := range blocks[upTo:] {
			require.Equal(t, (&types.Hash{}).Bytes(), ldg.GetBlockHash(gone.BlockHeader.Number).Bytes(),
				"height %d is above the head", gone.BlockHeader.Number)
		}
	}

	check(ldg, 4)

	// restart: the index is read from disk
	ldg.Close()
	ldg, _ = initLedger(t, root)
	check(ldg, 4)

	// rollback: nothing above the target, everything up to it unchanged
	require.Nil(t, ldg.Rollback(2))
	check(ldg, 2)
	ldg.Close()
}

// the same through the real EVM: a contract returning blockhash(n) for an earlier block.
// bytecode: PUSH1 n; BLOCKHASH; PUSH1 0; MSTORE; PUSH1 32; PUSH1 0; RETURN
func TestT03_EVMBlockhashOpcode(t *testing.T) {
	ldg, _ := initLedger(t, "")
	defer ldg.Close()

	b1 := t03Persist(t, ldg)
	b2 := t03Persist(t, ldg, t03Tx(1))
	t03Persist(t, ldg)

	// what BlockExecutor.processExecuteEvent does for block 4 (internal/executor/handle.go newEvm)
	chainCfg := &params.ChainConfig{
		ChainID:             big.NewInt(1),
		HomesteadBlock:      big.NewInt(0),
		EIP150Block:         big.NewInt(0),
		EIP155Block:         big.NewInt(0),
		EIP158Block:         big.NewInt(0),
		ByzantiumBlock:      big.NewInt(0),
		ConstantinopleBlock: big.NewInt(0),
		PetersburgBlock:     big.NewInt(0),
		IstanbulBlock:       big.NewInt(0),
	}
	admin := "0xc7F999b83Af6DF9e67d0a37Ee7e900bF38b3D013"
	blkCtx := vm.NewEVMBlockContext(4, 4, 24576, ldg.StateLedger, ldg.ChainLedger, admin)
	evm := vm.NewEVM(blkCtx, vm.TxContext{GasPrice: big.NewInt(0)}, ldg.StateLedger, chainCfg, vm.Config{})

	ldg.PrepareBlock(nil, 4)
	caller := common.BytesToAddress(bytesutil.LeftPadBytes([]byte{200}, 20))
	for _, want := range []*pb.Block{b1, b2} {
		n := byte(want.BlockHeader.Number)
		contract := types.NewAddress(bytesutil.LeftPadBytes([]byte{0xc0, n}, 20))
		ldg.SetCode(contract, []byte{0x60, n, 0x40, 0x60, 0x00, 0x52, 0x60, 0x20, 0x60, 0x00, 0xf3})

		ret, _, err := evm.Call(vm.AccountRef(caller), common.BytesToAddress(contract.Bytes()), nil, 100000, big.NewInt(0))
		require.Nil(t, err)
		require.Equal(t, want.BlockHash.Bytes(), ret,
			"BLOCKHASH(%d) executed in block 4 returned %x (ASCII %q), block %d has hash %s",
			n, ret, string(ret), n, want.BlockHash.String())
	}
}

// Item 3 of the notes (LATENT, see report): after RollbackBlockChain(0) the in-memory chain
// meta carries a nil BlockHash while a restart yields the zero hash. No production caller can
// roll a non-empty chain back to 0 (Ledger.New passes the current height, which is a no-op for
// 0; BlockExecutor.rollbackBlocks fails on GetBlock(0) before it would call Rollback(0)), so
// this only records what the function does and does not fail.
func TestT03_RollbackToZeroChainMeta_Latent(t *testing.T) {
	ldg, _ := initLedger(t, "")
	defer ldg.Close()

	t03Persist(t, ldg)
	t03Persist(t, ldg)
	require.Nil(t, ldg.Rollback(0))

	inMemory := ldg.GetChainMeta()
	reloaded := ldg.LoadChainMeta()
	require.EqualValues(t, 0, inMemory.Height)
	require.EqualValues(t, 0, reloaded.Height)
	require.NotNil(t, reloaded.BlockHash)
	t.Logf("after Rollback(0): in-memory BlockHash nil = %v, reloaded BlockHash = %s",
		inMemory.BlockHash == nil, reloaded.BlockHash.String())
}
