package boltvm

// Property C17: internal and privileged contract entry points reject unauthorised callers.
//
// Three separate findings, three tests. All of them drive the REAL built-in contracts through the
// REAL BoltVM dispatcher (boltvm.New(ctx, ...).Run(payload)) on a real leveldb-backed ledger: every
// call is what BlockExecutor.applyBxhTransaction does for an ordinary BVM transaction
// (tx.To = address of a built-in contract, payload = pb.InvokePayload{Method, Args}); a failed call is reverted.
//
//   TestFindingA_RemovedChainAdminRegainsRights   role index of a chain only grows: a removed chain admin passes
//                                                 PermissionSelf of ServiceManager / RuleManager for the old chain
//                                                 as soon as it is admin of ANY chain (and the remaining admin is
//                                                 locked out in between)
//   TestFindingB_ForeignObjIdPausesProposal       an outsider pauses the TransferDapp proposal of a victim by
//                                                 AppchainManager.RegisterAppchain(chainID = <victim's dapp id>)
//   TestFindingC_InterchainRegisterOpen           InterchainManager.Register has no caller check
//
// Every test runs with audit logging off and on.
//
// Unchanged tree: A (both), B_ForeignObjId and C FAIL; B_SameObjectLockingStillWorks passes (feature check).
// With fix.diff : A and B pass; C still FAILS on purpose - its repair (out/fix_c_not_applied.diff) cannot be applied
//                 without editing existing tests that pin the open behaviour, see report.md.

import (
	"encoding/json"
	"fmt"
	"io/ioutil"
	"os"
	"path/filepath"
	"testing"
	"time"

	"github.com/meshplus/bitxhub-core/agency"
	appchainMgr "github.com/meshplus/bitxhub-core/appchain-mgr"
	"github.com/meshplus/bitxhub-core/governance"
	"github.com/meshplus/bitxhub-core/validator"
	"github.com/meshplus/bitxhub-kit/log"
	"github.com/meshplus/bitxhub-kit/storage/blockfile"
	"github.com/meshplus/bitxhub-kit/storage/leveldb"
	"github.com/meshplus/bitxhub-kit/types"
	"github.com/meshplus/bitxhub-model/constant"
	"github.com/meshplus/bitxhub-model/pb"
	"github.com/meshplus/bitxhub/internal/executor/contracts"
	"github.com/meshplus/bitxhub/internal/ledger"
	"github.com/meshplus/bitxhub/internal/repo"
	"github.com/meshplus/bitxhub/pkg/vm"
	"github.com/stretchr/testify/assert"
	"github.com/stretchr/testify/require"
)

// ---------------------------------------------------------------- harness

type fxEnv struct {
	t      *testing.T
	ldg    *ledger.Ledger
	cons   map[string]agency.Contract
	audit  bool
	nonce  uint64
	admins []string
}

func fxAddr(b byte) string {
	raw := make([]byte, 20)
	for i := range raw {
		raw[i] = b
	}
	return types.NewAddress(raw).String()
}

func newFxEnv(t *testing.T, audit bool) *fxEnv {
	admins := []string{fxAddr(0xa1), fxAddr(0xa2), fxAddr(0xa3)}
	root, err := ioutil.TempDir("", "c17finding")
	require.Nil(t, err)
	t.Cleanup(func() { _ = os.RemoveAll(root) })

	blockStorage, err := leveldb.New(filepath.Join(root, "storage"))
	require.Nil(t, err)
	ldb, err := leveldb.New(filepath.Join(root, "ledger"))
	require.Nil(t, err)
	accountCache, err := ledger.NewAccountCache()
	require.Nil(t, err)
	logger := log.NewWithModule("c17finding")
	blockFile, err := blockfile.NewBlockFile(root, logger)
	require.Nil(t, err)
	rep := &repo.Repo{Config: &repo.Config{}}
	rep.Config.Executor.Type = "serial"
	ldg, err := ledger.New(rep, blockStorage, ldb, blockFile, accountCache, logger)
	require.Nil(t, err)

	// the state the genesis block writes (internal/ledger/genesis): governance admins (first = super admin),
	// proposal strategies, bitxhub id
	ldg.PrepareBlock(nil, 1)
	idMap := map[string]struct{}{}
	for i, ad := range admins {
		weight := uint64(repo.NormalAdminWeight)
		if i == 0 {
			weight = repo.SuperAdminWeight
		}
		idMap[ad] = struct{}{}
		data, err := json.Marshal(&contracts.Role{ID: ad, RoleType: contracts.GovernanceAdmin, Weight: weight, Status: governance.GovernanceAvailable})
		require.Nil(t, err)
		ldg.SetState(constant.RoleContractAddr.Address(), []byte(contracts.RoleKey(ad)), data, nil)
	}
	idMapData, err := json.Marshal(idMap)
	require.Nil(t, err)
	ldg.SetState(constant.RoleContractAddr.Address(), []byte(contracts.RoleTypeKey(string(contracts.GovernanceAdmin))), idMapData, nil)
	ldg.SetState(constant.RoleContractAddr.Address(), []byte(contracts.GenesisBalance), []byte("100000000"), nil)
	for _, module := range []string{repo.AppchainMgr, repo.RuleMgr, repo.NodeMgr, repo.ServiceMgr, repo.RoleMgr, repo.ProposalStrategyMgr, repo.DappMgr} {
		data, err := json.Marshal(&contracts.ProposalStrategy{Module: module, Typ: contracts.SimpleMajority, Extra: repo.DefaultSimpleMajorityExpression, Status: governance.GovernanceAvailable})
		require.Nil(t, err)
		ldg.SetState(constant.ProposalStrategyMgrContractAddr.Address(), []byte(contracts.ProposalStrategyKey(module)), data, nil)
	}
	ldg.SetState(constant.InterchainContractAddr.Address(), []byte(contracts.BitXHubID), []byte("1356"), nil)

	// the contracts the executor registers (internal/executor/executor.go registerBoltContracts)
	cons := Register([]*BoltContract{
		{Enabled: true, Name: "interchain", Address: constant.InterchainContractAddr.Address().String(), Contract: &contracts.InterchainManager{}},
		{Enabled: true, Name: "store", Address: constant.StoreContractAddr.Address().String(), Contract: &contracts.Store{}},
		{Enabled: true, Name: "rule", Address: constant.RuleManagerContractAddr.Address().String(), Contract: &contracts.RuleManager{}},
		{Enabled: true, Name: "role", Address: constant.RoleContractAddr.Address().String(), Contract: &contracts.RoleManager{}},
		{Enabled: true, Name: "appchain", Address: constant.AppchainMgrContractAddr.Address().String(), Contract: &contracts.AppchainManager{}},
		{Enabled: true, Name: "transaction", Address: constant.TransactionMgrContractAddr.Address().String(), Contract: &contracts.TransactionManager{}},
		{Enabled: true, Name: "governance", Address: constant.GovernanceContractAddr.Address().String(), Contract: &contracts.Governance{}},
		{Enabled: true, Name: "node", Address: constant.NodeManagerContractAddr.Address().String(), Contract: &contracts.NodeManager{}},
		{Enabled: true, Name: "broker", Address: constant.InterBrokerContractAddr.Address().String(), Contract: &contracts.InterBroker{}},
		{Enabled: true, Name: "service", Address: constant.ServiceMgrContractAddr.Address().String(), Contract: &contracts.ServiceManager{}},
		{Enabled: true, Name: "dapp", Address: constant.DappMgrContractAddr.Address().String(), Contract: &contracts.DappManager{}},
		{Enabled: true, Name: "strategy", Address: constant.ProposalStrategyMgrContractAddr.Address().String(), Contract: &contracts.GovStrategy{}},
	})

	return &fxEnv{t: t, ldg: ldg, cons: cons, audit: audit, admins: admins}
}

// invoke = one BVM transaction sent by the external account `from` to the built-in contract `to`
func (e *fxEnv) invoke(from string, to constant.BoltContractAddress, method string, args ...*pb.Arg) ([]byte, error) {
	payload, err := (&pb.InvokePayload{Method: method, Args: args}).Marshal()
	require.Nil(e.t, err)

	e.nonce++
	tx := &pb.BxhTransaction{
		From:      types.NewAddressByStr(from),
		To:        to.Address(),
		Timestamp: time.Now().UnixNano(),
		Nonce:     e.nonce,
	}
	tx.TransactionHash = tx.Hash()

	ctx := vm.NewContext(tx, e.nonce, nil, 2, e.ldg, log.NewWithModule("c17finding"), e.audit, nil)
	snapshot := e.ldg.Snapshot()
	ret, _, err := New(ctx, nil, nil, e.cons).Run(payload, 0)
	if err != nil {
		e.ldg.RevertToSnapshot(snapshot)
	}
	return ret, err
}

func (e *fxEnv) mustInvoke(from string, to constant.BoltContractAddress, method string, args ...*pb.Arg) []byte {
	ret, err := e.invoke(from, to, method, args...)
	require.Nil(e.t, err, "%s by %s should succeed", method, from)
	return ret
}

func (e *fxEnv) proposalID(ret []byte) string {
	gr := &governance.GovernanceResult{}
	require.Nil(e.t, json.Unmarshal(ret, gr))
	require.NotEqual(e.t, "", gr.ProposalID)
	return gr.ProposalID
}

func (e *fxEnv) proposal(id string) *contracts.Proposal {
	ok, data := e.ldg.GetState(constant.GovernanceContractAddr.Address(), []byte(contracts.ProposalKey(id)))
	require.True(e.t, ok, "proposal %s", id)
	p := &contracts.Proposal{}
	require.Nil(e.t, json.Unmarshal(data, p))
	return p
}

// approve lets the governance admins vote until the proposal is decided
func (e *fxEnv) approve(id string) {
	for _, v := range e.admins {
		if e.proposal(id).Status != contracts.PROPOSED {
			break
		}
		if _, voted := e.proposal(id).BallotMap[v]; voted {
			continue
		}
		e.mustInvoke(v, constant.GovernanceContractAddr, "Vote", pb.String(id), pb.String(contracts.BallotApprove), pb.String("ok"))
	}
	require.Equal(e.t, contracts.APPROVED, e.proposal(id).Status, "proposal %s", id)
}

func (e *fxEnv) registerChain(from, chainID, chainType, broker, admins string) ([]byte, error) {
	return e.invoke(from, constant.AppchainMgrContractAddr, "RegisterAppchain",
		pb.String(chainID), pb.String(chainID+"-name"), pb.Bytes(nil), pb.String(chainType), pb.Bytes([]byte("root")), pb.String(broker),
		pb.String("desc"), pb.String(validator.HappyRuleAddr), pb.String(""), pb.String(admins), pb.String("reason"))
}

func (e *fxEnv) registerService(from, chainID, svc string) ([]byte, error) {
	return e.invoke(from, constant.ServiceMgrContractAddr, "RegisterService", pb.String(chainID), pb.String(svc), pb.String(chainID+svc+"-name"),
		pb.String("CallContract"), pb.String("intro"), pb.Uint64(1), pb.String(""), pb.String("details"), pb.String("reason"))
}

func (e *fxEnv) chainStatus(chainID string) governance.GovernanceStatus {
	ret := e.mustInvoke(fxAddr(0x99), constant.AppchainMgrContractAddr, "GetAppchain", pb.String(chainID))
	chain := &appchainMgr.Appchain{}
	require.Nil(e.t, json.Unmarshal(ret, chain))
	return chain.Status
}

func fxBothAuditModes(t *testing.T, f func(t *testing.T, e *fxEnv)) {
	for _, audit := range []bool{false, true} {
		audit := audit
		t.Run(fmt.Sprintf("audit=%v", audit), func(t *testing.T) { f(t, newFxEnv(t, audit)) })
	}
}

const fxFabricBroker = `{"channel_id":"mychannel","chaincode_id":"broker","broker_version":"1"}`

// ---------------------------------------------------------------- (a)

// Production path: AppchainManager.RegisterAppchain / UpdateAppchain (public, chain admin) -> Governance.Vote (governance admins)
// -> Governance.handleResult -> AppchainManager.Manage -> RoleManager.UpdateAppchainAdmin (writer of the per-chain admin index);
// ServiceManager.RegisterService / RuleManager.UpdateMasterRule (public) -> checkPermission(PermissionSelf)
// -> RoleManager.GetAppchainAdmin (reader of the index).
func TestFindingA_RemovedChainAdminRegainsRights(t *testing.T) {
	fxBothAuditModes(t, func(t *testing.T, e *fxEnv) {
		adminA, adminC := fxAddr(0x51), fxAddr(0x52)

		// chain X (a fabric chain: three built-in rules, happy rule is the master) with the admins A and C
		ret, err := e.registerChain(adminA, "chainX", appchainMgr.ChainTypeFabric1_4_3, fxFabricBroker, adminA+","+adminC)
		require.Nil(t, err)
		e.approve(e.proposalID(ret))
		// both are chain admins of X: either may register a service of X
		_, err = e.registerService(adminC, "chainX", "svc0")
		require.Nil(t, err, "C is an admin of X")

		// A removes C from the admins of X; governance approves
		e.approve(e.proposalID(e.mustInvoke(adminA, constant.AppchainMgrContractAddr, "UpdateAppchain",
			pb.String("chainX"), pb.String("chainX-name"), pb.String("desc"), pb.Bytes([]byte("root")), pb.String(adminA), pb.String("drop C"))))
		require.Equal(t, governance.GovernanceAvailable, e.chainStatus("chainX"))

		_, err = e.registerService(adminC, "chainX", "svc1")
		require.NotNil(t, err, "C was removed from X")
		// (same defect, availability side: the stale entry of C makes GetAppchainAdmin(X) fail for everybody)
		_, err = e.registerService(adminA, "chainX", "svc2")
		assert.Nil(t, err, "A is still the admin of X and must keep its rights")

		// C becomes the admin of its own chain Y
		ret, err = e.registerChain(adminC, "chainY", "ETH", "0xbroker", adminC)
		require.Nil(t, err)
		e.approve(e.proposalID(ret))
		_, err = e.registerService(adminC, "chainY", "svc0")
		require.Nil(t, err, "C is the admin of Y")

		// C17: operations reserved to the chain's own admin fail for everyone else and change nothing
		ret, err = e.registerService(adminC, "chainX", "svc3")
		assert.NotNil(t, err, "C17 violated: %s (admin of chainY only) registered a service of chainX: %s", adminC, ret)
		_, gerr := e.invoke(adminC, constant.ServiceMgrContractAddr, "GetServiceInfo", pb.String("chainX:svc3"))
		assert.NotNil(t, gerr, "C17 violated: service record chainX:svc3 created by a non-admin of chainX")

		// rule manager: the same check guards RegisterRule / LogoutRule / UpdateMasterRule; the last one freezes the chain
		ret, err = e.invoke(adminC, constant.RuleManagerContractAddr, "UpdateMasterRule", pb.String("chainX"), pb.String(validator.FabricRuleAddr), pb.String("mine now"))
		assert.NotNil(t, err, "C17 violated: %s (admin of chainY only) changed the master rule of chainX: %s", adminC, ret)
		assert.Equal(t, governance.GovernanceAvailable, e.chainStatus("chainX"), "C17 violated: chainX paused by a non-admin")

		// the rights of the real admins are untouched
		_, err = e.registerService(adminA, "chainX", "svc4")
		assert.Nil(t, err, "A is the admin of X")
		_, err = e.registerService(adminC, "chainY", "svc1")
		assert.Nil(t, err, "C is the admin of Y")
	})
}

// State written by the code before the repair: the index of X still lists the removed admin C (old ∪ new).
// The reader must not hand C's role (which now belongs to chain Y) out as an admin of X, and the next admin update
// of X must not delete the role record C holds for Y.
func TestFindingA_StaleIndexOfExistingChains(t *testing.T) {
	fxBothAuditModes(t, func(t *testing.T, e *fxEnv) {
		adminA, adminC, adminD := fxAddr(0x51), fxAddr(0x52), fxAddr(0x53)
		ret, err := e.registerChain(adminA, "chainX", "ETH", "0xbroker", adminA)
		require.Nil(t, err)
		e.approve(e.proposalID(ret))
		ret, err = e.registerChain(adminC, "chainY", "ETH", "0xbroker", adminC)
		require.Nil(t, err)
		e.approve(e.proposalID(ret))

		// what updateAppchainAdmin left behind after [A,C] -> [A] on the unrepaired tree
		e.ldg.SetState(constant.RoleContractAddr.Address(), []byte(contracts.RoleAppchainAdminKey("chainX")),
			[]byte(fmt.Sprintf(`{%q:{},%q:{}}`, adminA, adminC)), nil)

		ret, err = e.registerService(adminC, "chainX", "svc0")
		assert.NotNil(t, err, "C17 violated: %s (admin of chainY only) registered a service of chainX: %s", adminC, ret)
		_, err = e.registerService(adminA, "chainX", "svc1")
		assert.Nil(t, err, "A is the admin of X")

		// X gets a second admin D: C keeps the role it holds for chain Y
		e.approve(e.proposalID(e.mustInvoke(adminA, constant.AppchainMgrContractAddr, "UpdateAppchain",
			pb.String("chainX"), pb.String("chainX-name"), pb.String("desc"), pb.Bytes([]byte("root")), pb.String(adminA+","+adminD), pb.String("add D"))))
		_, err = e.registerService(adminC, "chainY", "svc0")
		assert.Nil(t, err, "C is still the admin of Y after the admins of X changed")
		_, err = e.registerService(adminD, "chainX", "svc2")
		assert.Nil(t, err, "D is an admin of X")
		_, err = e.registerService(adminC, "chainX", "svc3")
		assert.NotNil(t, err, "C is no admin of X")
	})
}

// ---------------------------------------------------------------- (b)

// Production path: DappManager.TransferDapp (public, dapp owner) -> Governance.SubmitProposal (proposal P, obj = dapp id);
// AppchainManager.RegisterAppchain (public, ANY account, free-form chain id) -> Governance.SubmitProposal
// -> lockLowPriorityProposal(objId) which pauses P although P manages an object of another manager.
func TestFindingB_ForeignObjIdPausesProposal(t *testing.T) {
	fxBothAuditModes(t, func(t *testing.T, e *fxEnv) {
		victim, newOwner, outsider := fxAddr(0x55), fxAddr(0x56), fxAddr(0x77)

		e.approve(e.proposalID(e.mustInvoke(victim, constant.DappMgrContractAddr, "RegisterDapp",
			pb.String("dapp1"), pb.String("tool"), pb.String("a dapp"), pb.String("http://dapp1"), pb.String(""), pb.String(""), pb.String("register"))))
		dappID := victim + "-0"

		p := e.proposalID(e.mustInvoke(victim, constant.DappMgrContractAddr, "TransferDapp", pb.String(dappID), pb.String(newOwner), pb.String("sell")))
		require.Equal(t, contracts.PROPOSED, e.proposal(p).Status)

		// the outsider registers an appchain whose (free-form) chain id is the victim's dapp id
		_, err := e.registerChain(outsider, dappID, "ETH", "0xbroker", outsider)
		require.Nil(t, err, "anybody may apply for an appchain")

		assert.Equal(t, contracts.PROPOSED, e.proposal(p).Status, "C17 violated: the transfer proposal %s of %s was locked by an outsider's appchain application", p, victim)
		_, err = e.invoke(e.admins[0], constant.GovernanceContractAddr, "Vote", pb.String(p), pb.String(contracts.BallotApprove), pb.String("ok"))
		assert.Nil(t, err, "C17 violated: governance admins cannot vote on the victim's proposal any more")
		if e.proposal(p).Status == contracts.PROPOSED {
			e.approve(p)
		}
		assert.Equal(t, contracts.APPROVED, e.proposal(p).Status)
	})
}

// The feature must survive the repair: a proposal is still suspended by a higher-priority event on the SAME object
// (governance freezes chain X -> ServiceManager.PauseChainService -> Governance.LockLowPriorityProposal pauses the open
// update proposal of X's service; activating X restores it).
func TestFindingB_SameObjectLockingStillWorks(t *testing.T) {
	fxBothAuditModes(t, func(t *testing.T, e *fxEnv) {
		adminA := fxAddr(0x51)
		ret, err := e.registerChain(adminA, "chainX", "ETH", "0xbroker", adminA)
		require.Nil(t, err)
		e.approve(e.proposalID(ret))
		ret, err = e.registerService(adminA, "chainX", "svc0")
		require.Nil(t, err)
		e.approve(e.proposalID(ret))

		p := e.proposalID(e.mustInvoke(adminA, constant.ServiceMgrContractAddr, "UpdateService",
			pb.String("chainX:svc0"), pb.String("svc0-new-name"), pb.String("intro"), pb.String(""), pb.String("details"), pb.String("rename")))
		require.Equal(t, contracts.PROPOSED, e.proposal(p).Status)

		e.approve(e.proposalID(e.mustInvoke(e.admins[0], constant.AppchainMgrContractAddr, "FreezeAppchain", pb.String("chainX"), pb.String("freeze"))))
		require.Equal(t, contracts.PAUSED, e.proposal(p).Status, "freezing the chain suspends the proposals of its services")

		e.approve(e.proposalID(e.mustInvoke(e.admins[0], constant.AppchainMgrContractAddr, "ActivateAppchain", pb.String("chainX"), pb.String("activate"))))
		require.Equal(t, contracts.PROPOSED, e.proposal(p).Status, "activating the chain restores them")
		e.approve(p)
	})
}

// ---------------------------------------------------------------- (c)

// Production path: a plain BVM transaction of any account to the interchain contract, method "Register".
// The only intended caller is ServiceManager.Manage (approved service registration).
func TestFindingC_InterchainRegisterOpen(t *testing.T) {
	fxBothAuditModes(t, func(t *testing.T, e *fxEnv) {
		outsider := fxAddr(0x77)
		key := []byte("service-1356:chainV:svc")
		ok, _ := e.ldg.GetState(constant.InterchainContractAddr.Address(), key)
		require.False(t, ok)

		_, err := e.invoke(outsider, constant.InterchainContractAddr, "Register", pb.String("chainV:svc"))
		assert.NotNil(t, err, "C17 violated: InterchainManager.Register accepted the external account %s", outsider)
		ok, _ = e.ldg.GetState(constant.InterchainContractAddr.Address(), key)
		assert.False(t, ok, "C17 violated: interchain record of a service that does not exist created by an outsider")

		// the designated path still works: an approved service registration creates the record
		adminA := fxAddr(0x51)
		ret, err := e.registerChain(adminA, "chainX", "ETH", "0xbroker", adminA)
		require.Nil(t, err)
		e.approve(e.proposalID(ret))
		ret, err = e.registerService(adminA, "chainX", "svc0")
		require.Nil(t, err)
		e.approve(e.proposalID(ret))
		ok, _ = e.ldg.GetState(constant.InterchainContractAddr.Address(), []byte("service-1356:chainX:svc0"))
		require.True(t, ok, "ServiceManager.Manage -> InterchainManager.Register")
	})
}
