package executor

// Demonstration for triage item 2 (property C16): an approved UpdateAppchain / UpdateService proposal lifts a
// freeze that was imposed by an approved FreezeAppchain / FreezeService proposal.
//
// Everything below drives the REAL code: a real ledger (leveldb + block file in a temp dir), the real
// BlockExecutor with its real serial transaction executor, the real bolt contracts reached through BoltVM.
// Transactions are applied with exec.txsExecutor.ApplyTransactions -> BlockExecutor.applyTx, the function the
// block pipeline uses for every transaction (so that a failing call is reverted and the executor's service
// cache follows the SERVICE events). Nothing is mocked.

import (
	"encoding/json"
	"fmt"
	"math/big"
	"path/filepath"
	"testing"

	appchainMgr "github.com/meshplus/bitxhub-core/appchain-mgr"
	"github.com/meshplus/bitxhub-core/governance"
	servicemgr "github.com/meshplus/bitxhub-core/service-mgr"
	"github.com/meshplus/bitxhub-core/validator"
	"github.com/meshplus/bitxhub-kit/log"
	"github.com/meshplus/bitxhub-kit/storage/blockfile"
	"github.com/meshplus/bitxhub-kit/storage/leveldb"
	"github.com/meshplus/bitxhub-kit/types"
	"github.com/meshplus/bitxhub-model/constant"
	"github.com/meshplus/bitxhub-model/pb"
	"github.com/meshplus/bitxhub/internal/executor/contracts"
	"github.com/meshplus/bitxhub/internal/executor/oracle/appchain"
	"github.com/meshplus/bitxhub/internal/ledger"
	"github.com/meshplus/bitxhub/internal/repo"
	"github.com/stretchr/testify/require"
)

const (
	zzSuperAdmin = "0x1000000000000000000000000000000000000001" // weight 2: the super administrator
	zzAdmin2     = "0x1000000000000000000000000000000000000002"
	zzAdmin3     = "0x1000000000000000000000000000000000000003"
	zzAdmin4     = "0x1000000000000000000000000000000000000004"
	zzChainAdmA  = "0x2000000000000000000000000000000000000001" // admin of appchain chainA
	zzChainAdmB  = "0x2000000000000000000000000000000000000002" // admin of appchain chainB
	zzRelayer    = "0x3000000000000000000000000000000000000001" // sender of the IBTP transactions (a pier)
)

type zzEnv struct {
	t     *testing.T
	exec  *BlockExecutor
	ldg   *ledger.Ledger
	nonce map[string]uint64
	clock int64
	index uint64 // interchain index chainA:svcA -> chainB:svcB
}

func zzNewEnv(t *testing.T) *zzEnv {
	root := t.TempDir()
	blockchainStorage, err := leveldb.New(filepath.Join(root, "storage"))
	require.Nil(t, err)
	ldb, err := leveldb.New(filepath.Join(root, "ledger"))
	require.Nil(t, err)
	accountCache, err := ledger.NewAccountCache()
	require.Nil(t, err)
	blockFile, err := blockfile.NewBlockFile(root, log.NewWithModule("zz"))
	require.Nil(t, err)
	ldg, err := ledger.New(createMockRepo(t), blockchainStorage, ldb, blockFile, accountCache, log.NewWithModule("ledger"))
	require.Nil(t, err)

	// genesis state, as internal/ledger/genesis writes it: four governance admins, the first one is the super admin
	config, err := repo.DefaultConfig()
	require.Nil(t, err)
	config.Genesis.Admins = []*repo.Admin{
		{Address: zzSuperAdmin, Weight: repo.SuperAdminWeight},
		{Address: zzAdmin2, Weight: repo.NormalAdminWeight},
		{Address: zzAdmin3, Weight: repo.NormalAdminWeight},
		{Address: zzAdmin4, Weight: repo.NormalAdminWeight},
	}
	idMap := map[string]struct{}{}
	for _, ad := range config.Genesis.Admins {
		idMap[ad.Address] = struct{}{}
		data, err := json.Marshal(&contracts.Role{ID: ad.Address, RoleType: contracts.GovernanceAdmin, Weight: ad.Weight, Status: governance.GovernanceAvailable})
		require.Nil(t, err)
		ldg.SetState(constant.RoleContractAddr.Address(), []byte(contracts.RoleKey(ad.Address)), data, nil)
	}
	idMapData, err := json.Marshal(idMap)
	require.Nil(t, err)
	ldg.SetState(constant.RoleContractAddr.Address(), []byte(contracts.RoleTypeKey(string(contracts.GovernanceAdmin))), idMapData, nil)
	ldg.SetState(constant.InterchainContractAddr.Address(), []byte(contracts.BitXHubID), []byte("1"), nil)
	accounts, journal := ldg.FlushDirtyData()
	require.Nil(t, ldg.Commit(1, accounts, journal))
	require.Nil(t, ldg.PersistExecutionResult(mockBlock(1, nil), nil, &pb.InterchainMeta{}))

	exec, err := New(ldg, log.NewWithModule("executor"), &appchain.Client{}, config, big.NewInt(0))
	require.Nil(t, err)
	return &zzEnv{t: t, exec: exec, ldg: ldg, nonce: map[string]uint64{}}
}

func (e *zzEnv) apply(tx *pb.BxhTransaction) *pb.Receipt {
	tx.Nonce = e.nonce[tx.From.String()]
	e.nonce[tx.From.String()]++
	e.clock++
	tx.Timestamp = e.clock // deterministic
	tx.TransactionHash = tx.Hash()
	receipts := e.exec.txsExecutor.ApplyTransactions([]pb.Transaction{tx}, nil)
	require.Equal(e.t, 1, len(receipts))
	return receipts[0]
}

// invoke sends a BVM transaction from `from` to a bolt contract and returns the receipt
func (e *zzEnv) invoke(from string, contract constant.BoltContractAddress, method string, args ...*pb.Arg) *pb.Receipt {
	payload, err := (&pb.InvokePayload{Method: method, Args: args}).Marshal()
	require.Nil(e.t, err)
	data, err := (&pb.TransactionData{Type: pb.TransactionData_INVOKE, VmType: pb.TransactionData_BVM, Payload: payload}).Marshal()
	require.Nil(e.t, err)
	return e.apply(&pb.BxhTransaction{From: types.NewAddressByStr(from), To: contract.Address(), Payload: data})
}

func (e *zzEnv) mustInvoke(from string, contract constant.BoltContractAddress, method string, args ...*pb.Arg) []byte {
	r := e.invoke(from, contract, method, args...)
	require.Equal(e.t, pb.Receipt_SUCCESS, r.Status, "%s failed: %s", method, string(r.Ret))
	return r.Ret
}

// propose invokes a governance operation and returns the id of the proposal it submitted
func (e *zzEnv) propose(from string, contract constant.BoltContractAddress, method string, args ...*pb.Arg) string {
	gr := &governance.GovernanceResult{}
	require.Nil(e.t, json.Unmarshal(e.mustInvoke(from, contract, method, args...), gr))
	require.NotEqual(e.t, "", gr.ProposalID, "%s submitted no proposal", method)
	return gr.ProposalID
}

func (e *zzEnv) vote(proposalID, ballot string, voters ...string) {
	for _, v := range voters {
		e.mustInvoke(v, constant.GovernanceContractAddr, "Vote", pb.String(proposalID), pb.String(ballot), pb.String("r"))
	}
}

func (e *zzEnv) proposalStatus(proposalID string) contracts.ProposalStatus {
	p := &contracts.Proposal{}
	require.Nil(e.t, json.Unmarshal(e.mustInvoke(zzRelayer, constant.GovernanceContractAddr, "GetProposal", pb.String(proposalID)), p))
	return p.Status
}

func (e *zzEnv) chain(id string) *appchainMgr.Appchain {
	c := &appchainMgr.Appchain{}
	require.Nil(e.t, json.Unmarshal(e.mustInvoke(zzRelayer, constant.AppchainMgrContractAddr, "GetAppchain", pb.String(id)), c))
	return c
}

func (e *zzEnv) service(id string) *servicemgr.Service {
	s := &servicemgr.Service{}
	require.Nil(e.t, json.Unmarshal(e.mustInvoke(zzRelayer, constant.ServiceMgrContractAddr, "GetServiceInfo", pb.String(id)), s))
	return s
}

// registerChain registers an appchain with one service, both approved by three ordinary admins
func (e *zzEnv) registerChain(admin, chainID, serviceID string) {
	pid := e.propose(admin, constant.AppchainMgrContractAddr, "RegisterAppchain",
		pb.String(chainID), pb.String("name-"+chainID), pb.Bytes(nil), pb.String(appchainMgr.ChainTypeETH), pb.Bytes([]byte("root")),
		pb.String("broker"), pb.String("desc"), pb.String(validator.HappyRuleAddr), pb.String("url"), pb.String(admin), pb.String("reason"))
	e.vote(pid, contracts.BallotApprove, zzAdmin2, zzAdmin3, zzAdmin4)
	require.Equal(e.t, governance.GovernanceAvailable, e.chain(chainID).Status)

	pid = e.propose(admin, constant.ServiceMgrContractAddr, "RegisterService",
		pb.String(chainID), pb.String(serviceID), pb.String("name-"+serviceID), pb.String(string(servicemgr.ServiceCallContract)),
		pb.String("intro"), pb.Uint64(1), pb.String(""), pb.String("details"), pb.String("reason"))
	e.vote(pid, contracts.BallotApprove, zzAdmin2, zzAdmin3, zzAdmin4)
	require.Equal(e.t, governance.GovernanceAvailable, e.service(chainID+":"+serviceID).Status)
}

// sendRequest sends the next interchain request 1:chainA:svcA -> 1:chainB:svcB and tells how it was recorded:
// "accepted" (recorded for execution on chainB) or "begin_failure" (recorded as begin-failed: chainA rolls back)
func (e *zzEnv) sendRequest() string {
	e.index++
	content, err := (&pb.Content{Func: "set", Args: [][]byte{[]byte("k"), []byte("v")}}).Marshal()
	require.Nil(e.t, err)
	payload, err := (&pb.Payload{Content: content}).Marshal()
	require.Nil(e.t, err)
	ibtp := &pb.IBTP{From: "1:chainA:svcA", To: "1:chainB:svcB", Index: e.index, Type: pb.IBTP_INTERCHAIN, TimeoutHeight: 10, Payload: payload}
	r := e.apply(&pb.BxhTransaction{From: types.NewAddressByStr(zzRelayer), To: constant.InterchainContractAddr.Address(), IBTP: ibtp})
	require.Equal(e.t, pb.Receipt_SUCCESS, r.Status, "ibtp %d failed: %s", e.index, string(r.Ret))
	if r.TxStatus == pb.TransactionStatus_BEGIN_FAILURE {
		return "begin_failure"
	}
	require.Equal(e.t, "", string(r.Ret))
	return "accepted"
}

func (e *zzEnv) state(label string) string {
	s := fmt.Sprintf("%-62s chainB=%-9s chainB:svcB=%-9s request chainA->chainB: %s",
		label, e.chain("chainB").Status, e.service("chainB:svcB").Status, e.sendRequest())
	e.t.Log(s)
	return s
}

// A frozen appchain must stay frozen until an ActivateAppchain proposal is approved: an approved update of its
// name must not make it (and its services) usable for interchain again.
func TestZZFrozenAppchainStaysFrozenAfterApprovedUpdate(t *testing.T) {
	e := zzNewEnv(t)
	e.registerChain(zzChainAdmA, "chainA", "svcA")
	e.registerChain(zzChainAdmB, "chainB", "svcB")
	e.state("registered")
	require.Equal(t, "accepted", e.sendRequest())

	// a governance admin freezes chainB; freeze is a special proposal: it does not end before the super admin voted
	pid := e.propose(zzAdmin2, constant.AppchainMgrContractAddr, "FreezeAppchain", pb.String("chainB"), pb.String("misbehaving"))
	e.vote(pid, contracts.BallotApprove, zzAdmin2, zzAdmin3, zzAdmin4)
	require.Equal(t, contracts.PROPOSED, e.proposalStatus(pid), "a freeze needs the vote of the super admin")
	e.vote(pid, contracts.BallotApprove, zzSuperAdmin)
	require.Equal(t, contracts.APPROVED, e.proposalStatus(pid))
	e.state("FreezeAppchain(chainB) approved")
	require.Equal(t, governance.GovernanceFrozen, e.chain("chainB").Status)
	require.Equal(t, governance.GovernancePause, e.service("chainB:svcB").Status)
	require.Equal(t, "begin_failure", e.sendRequest())

	// the admin of the frozen chain proposes a new name; three ordinary admins approve it (the super admin never votes)
	pid = e.propose(zzChainAdmB, constant.AppchainMgrContractAddr, "UpdateAppchain",
		pb.String("chainB"), pb.String("new-name-chainB"), pb.String("desc"), pb.Bytes([]byte("root")), pb.String(zzChainAdmB), pb.String("rename"))
	require.Equal(t, governance.GovernanceUpdating, e.chain("chainB").Status)
	e.vote(pid, contracts.BallotApprove, zzAdmin2, zzAdmin3, zzAdmin4)
	require.Equal(t, contracts.APPROVED, e.proposalStatus(pid))
	after := e.state("UpdateAppchain(chainB, new name) approved")

	// the update itself took place ...
	require.Equal(t, "new-name-chainB", e.chain("chainB").ChainName)
	require.Equal(t, uint64(1), e.chain("chainB").Version)
	// ... but no ActivateAppchain proposal was approved: the freeze still holds
	require.Equal(t, governance.GovernanceFrozen, e.chain("chainB").Status, "approved update lifted the freeze of the appchain: %s", after)
	require.Equal(t, governance.GovernancePause, e.service("chainB:svcB").Status, "approved update resumed the services of a frozen appchain: %s", after)
	require.Equal(t, "begin_failure", e.sendRequest(), "a request to a service of a frozen appchain was recorded for execution")

	// the declared way out of a freeze still works (and needs the super admin)
	pid = e.propose(zzChainAdmB, constant.AppchainMgrContractAddr, "ActivateAppchain", pb.String("chainB"), pb.String("fixed"))
	e.vote(pid, contracts.BallotApprove, zzAdmin2, zzAdmin3, zzAdmin4)
	require.Equal(t, governance.GovernanceActivating, e.chain("chainB").Status)
	e.vote(pid, contracts.BallotApprove, zzSuperAdmin)
	e.state("ActivateAppchain(chainB) approved")
	require.Equal(t, governance.GovernanceAvailable, e.chain("chainB").Status)
	require.Equal(t, governance.GovernanceAvailable, e.service("chainB:svcB").Status)
	require.Equal(t, "accepted", e.sendRequest())

	// an update of an available appchain behaves as before: paused while it is voted on, available when approved
	pid = e.propose(zzChainAdmB, constant.AppchainMgrContractAddr, "UpdateAppchain",
		pb.String("chainB"), pb.String("third-name-chainB"), pb.String("desc"), pb.Bytes([]byte("root")), pb.String(zzChainAdmB), pb.String("rename"))
	require.Equal(t, "begin_failure", e.sendRequest())
	e.vote(pid, contracts.BallotApprove, zzAdmin2, zzAdmin3, zzAdmin4)
	e.state("UpdateAppchain(available chainB) approved")
	require.Equal(t, governance.GovernanceAvailable, e.chain("chainB").Status)
	require.Equal(t, governance.GovernanceAvailable, e.service("chainB:svcB").Status)
	require.Equal(t, "accepted", e.sendRequest())
}

// The same for a single service: FreezeService approved, then an approved UpdateService must leave it frozen.
func TestZZFrozenServiceStaysFrozenAfterApprovedUpdate(t *testing.T) {
	e := zzNewEnv(t)
	e.registerChain(zzChainAdmA, "chainA", "svcA")
	e.registerChain(zzChainAdmB, "chainB", "svcB")
	require.Equal(t, "accepted", e.sendRequest())

	pid := e.propose(zzAdmin2, constant.ServiceMgrContractAddr, "FreezeService", pb.String("chainB:svcB"), pb.String("misbehaving"))
	e.vote(pid, contracts.BallotApprove, zzAdmin2, zzAdmin3, zzAdmin4)
	require.Equal(t, contracts.PROPOSED, e.proposalStatus(pid), "a freeze needs the vote of the super admin")
	e.vote(pid, contracts.BallotApprove, zzSuperAdmin)
	e.state("FreezeService(chainB:svcB) approved")
	require.Equal(t, governance.GovernanceFrozen, e.service("chainB:svcB").Status)
	require.Equal(t, "begin_failure", e.sendRequest())

	pid = e.propose(zzChainAdmB, constant.ServiceMgrContractAddr, "UpdateService",
		pb.String("chainB:svcB"), pb.String("new-name-svcB"), pb.String("intro"), pb.String(""), pb.String("details"), pb.String("rename"))
	require.Equal(t, governance.GovernanceUpdating, e.service("chainB:svcB").Status)
	e.vote(pid, contracts.BallotApprove, zzAdmin2, zzAdmin3, zzAdmin4)
	require.Equal(t, contracts.APPROVED, e.proposalStatus(pid))
	after := e.state("UpdateService(chainB:svcB, new name) approved")

	require.Equal(t, "new-name-svcB", e.service("chainB:svcB").Name)
	require.Equal(t, governance.GovernanceFrozen, e.service("chainB:svcB").Status, "approved update lifted the freeze of the service: %s", after)
	require.Equal(t, "begin_failure", e.sendRequest(), "a request to a frozen service was recorded for execution")

	pid = e.propose(zzChainAdmB, constant.ServiceMgrContractAddr, "ActivateService", pb.String("chainB:svcB"), pb.String("fixed"))
	e.vote(pid, contracts.BallotApprove, zzAdmin2, zzAdmin3, zzAdmin4, zzSuperAdmin)
	e.state("ActivateService(chainB:svcB) approved")
	require.Equal(t, governance.GovernanceAvailable, e.service("chainB:svcB").Status)
	require.Equal(t, "accepted", e.sendRequest())

	// an update of an available service: available again when approved
	pid = e.propose(zzChainAdmB, constant.ServiceMgrContractAddr, "UpdateService",
		pb.String("chainB:svcB"), pb.String("third-name-svcB"), pb.String("intro"), pb.String(""), pb.String("details"), pb.String("rename"))
	e.vote(pid, contracts.BallotApprove, zzAdmin2, zzAdmin3, zzAdmin4)
	require.Equal(t, governance.GovernanceAvailable, e.service("chainB:svcB").Status)
	require.Equal(t, "accepted", e.sendRequest())
}
