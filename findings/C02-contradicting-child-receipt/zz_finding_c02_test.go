package contracts

import (
	"encoding/json"
	"fmt"
	"sort"
	"strconv"
	"strings"
	"testing"

	"github.com/meshplus/bitxhub-core/boltvm"
	"github.com/meshplus/bitxhub-core/governance"
	service_mgr "github.com/meshplus/bitxhub-core/service-mgr"
	"github.com/meshplus/bitxhub-core/validator"
	"github.com/meshplus/bitxhub-kit/log"
	"github.com/meshplus/bitxhub-kit/types"
	"github.com/meshplus/bitxhub-model/constant"
	"github.com/meshplus/bitxhub-model/pb"
	"github.com/sirupsen/logrus"
	"github.com/stretchr/testify/require"
)

// dupWorld is a tiny in-memory world state shared by the interchain contract and
// the transaction manager contract; the contracts themselves are the real ones.
type dupWorld struct {
	state  map[string]map[string][]byte // contract address -> key -> value
	height uint64
	txIdx  uint64
	logger logrus.FieldLogger
}

type dupStub struct {
	w             *dupWorld
	self          string
	currentCaller string
}

var _ boltvm.Stub = (*dupStub)(nil)

func (s *dupStub) kv() map[string][]byte {
	m, ok := s.w.state[s.self]
	if !ok {
		m = make(map[string][]byte)
		s.w.state[s.self] = m
	}
	return m
}

func (s *dupStub) Caller() string             { return "0xc7F999b83Af6DF9e67d0a37Ee7e900bF38b3D013" }
func (s *dupStub) Callee() string             { return s.self }
func (s *dupStub) CurrentCaller() string      { return s.currentCaller }
func (s *dupStub) Logger() logrus.FieldLogger { return s.w.logger }
func (s *dupStub) GetTxHash() *types.Hash {
	return types.NewHashByStr("0x9f41dd84524bf8a42f8ab58ecfca6e1752d6fd93fe8dc00af4c71963c97db59f")
}
func (s *dupStub) GetTxTimeStamp() int64    { return 1 }
func (s *dupStub) GetTxIndex() uint64       { return s.w.txIdx }
func (s *dupStub) GetCurrentHeight() uint64 { return s.w.height }
func (s *dupStub) Has(key string) bool      { _, ok := s.kv()[key]; return ok }
func (s *dupStub) Get(key string) (bool, []byte) {
	v, ok := s.kv()[key]
	return ok, v
}
func (s *dupStub) GetObject(key string, ret interface{}) bool {
	v, ok := s.kv()[key]
	if !ok {
		return false
	}
	return json.Unmarshal(v, ret) == nil
}
func (s *dupStub) Set(key string, value []byte) { s.kv()[key] = value }
func (s *dupStub) SetObject(key string, value interface{}) {
	data, err := json.Marshal(value)
	if err != nil {
		panic(err)
	}
	s.kv()[key] = data
}
func (s *dupStub) Add(key string, value []byte)            { s.Set(key, value) }
func (s *dupStub) AddObject(key string, value interface{}) { s.SetObject(key, value) }
func (s *dupStub) Delete(key string)                       { delete(s.kv(), key) }
func (s *dupStub) Query(prefix string) (bool, [][]byte) {
	var keys []string
	for k := range s.kv() {
		if strings.HasPrefix(k, prefix) {
			keys = append(keys, k)
		}
	}
	sort.Strings(keys)
	var ret [][]byte
	for _, k := range keys {
		ret = append(ret, s.kv()[k])
	}
	return len(ret) != 0, ret
}
func (s *dupStub) PostEvent(pb.Event_EventType, interface{}) {}
func (s *dupStub) PostInterchainEvent(interface{})           {}
func (s *dupStub) ValidationEngine() validator.Engine        { return nil }
func (s *dupStub) CrossInvokeEVM(string, []byte) *boltvm.Response {
	return boltvm.Success(nil)
}
func (s *dupStub) GetAccount(string) interface{} { return nil }
func (s *dupStub) EnableAudit() bool             { return false }

func dupU64(a *pb.Arg) uint64 {
	v, err := strconv.ParseUint(string(a.Value), 10, 64)
	if err != nil {
		panic(err)
	}
	return v
}

func (s *dupStub) CrossInvoke(address, method string, args ...*pb.Arg) *boltvm.Response {
	switch address {
	case constant.TransactionMgrContractAddr.Address().String():
		tm := &TransactionManager{Stub: &dupStub{w: s.w, self: address, currentCaller: s.self}}
		switch method {
		case "BeginMultiTXs":
			return tm.BeginMultiTXs(string(args[0].Value), string(args[1].Value), dupU64(args[2]), string(args[3].Value) == "true", dupU64(args[4]))
		case "Begin":
			return tm.Begin(string(args[0].Value), dupU64(args[1]), string(args[2].Value) == "true")
		case "Report":
			r, err := strconv.ParseInt(string(args[1].Value), 10, 32)
			if err != nil {
				panic(err)
			}
			return tm.Report(string(args[0].Value), int32(r))
		case "GetStatus":
			return tm.GetStatus(string(args[0].Value))
		}
		return boltvm.Error(boltvm.OtherInternalErrCode, "unknown method "+method)
	default:
		// service manager bookkeeping (RecordInvokeService) etc.
		return boltvm.Success(nil)
	}
}

const (
	dupBxh = "1356"
	dupSrc = "1356:chainA:svc"
	dupToB = "1356:chainB:svc"
	dupToC = "1356:chainC:svc"
	dupToD = "1356:chainD:svc"
)

func dupSetup(t *testing.T) (*dupWorld, *InterchainManager) {
	w := &dupWorld{
		state:  make(map[string]map[string][]byte),
		height: 10,
		logger: log.NewWithModule("seed"),
	}
	icAddr := constant.InterchainContractAddr.Address().String()
	im := &InterchainManager{Stub: &dupStub{w: w, self: icAddr, currentCaller: "0xc7F999b83Af6DF9e67d0a37Ee7e900bF38b3D013"}}
	im.InitServiceCache()
	im.Set(BitXHubID, []byte(dupBxh))

	for _, full := range []string{dupSrc, dupToB, dupToC, dupToD} {
		_, chainID, serviceID, err := pb.ParseFullServiceID(full)
		require.Nil(t, err)
		status := governance.GovernanceAvailable
		chainServiceID := fmt.Sprintf("%s:%s", chainID, serviceID)
		im.ServiceCache.Store(chainServiceID, &service_mgr.Service{
			ChainID:    chainID,
			ServiceID:  serviceID,
			Ordered:    true,
			Permission: map[string]struct{}{},
			Status:     status,
		})
		require.True(t, im.Register(chainServiceID).Ok)
	}
	return w, im
}

func dupGroup() *pb.StringUint64Map {
	return &pb.StringUint64Map{
		Keys: []string{dupToB, dupToC, dupToD},
		Vals: []uint64{1, 1, 1},
	}
}

func dupHandle(t *testing.T, w *dupWorld, im *InterchainManager, height uint64, to string, typ pb.IBTP_Type) *boltvm.Response {
	w.height = height
	w.txIdx = 0
	ibtp := &pb.IBTP{
		From:          dupSrc,
		To:            to,
		Index:         1,
		Type:          typ,
		TimeoutHeight: 50,
		Group:         dupGroup(),
	}
	return im.HandleIBTP(ibtp)
}

func dupStatus(t *testing.T, im *InterchainManager, id string) pb.TransactionStatus {
	res := im.CrossInvoke(constant.TransactionMgrContractAddr.Address().String(), "GetStatus", pb.String(id))
	require.True(t, res.Ok, string(res.Result))
	v, err := strconv.Atoi(string(res.Result))
	require.Nil(t, err)
	return pb.TransactionStatus(v)
}

// Finding C02 / C05: the destination of one child of a one-to-many transaction reports SUCCESS and then, for the
// very same child (same pair, same index), FAILURE. The second receipt is a duplicate that contradicts an accepted
// one; it must be rejected without effect. The receipt counters of a group are only advanced when the group ends,
// so the index check cannot stop it; duplicates are stopped by the child's state machine - but the branch of
// changeMultiTxStatus for a failure receipt of a group that is still BEGIN flips every child without asking it.
func TestFindingC02_ContradictingChildReceiptIsRejected(t *testing.T) {
	w, im := dupSetup(t)
	idB := fmt.Sprintf("%s-%s-1", dupSrc, dupToB)

	require.True(t, dupHandle(t, w, im, 10, dupToB, pb.IBTP_INTERCHAIN).Ok)
	require.True(t, dupHandle(t, w, im, 10, dupToC, pb.IBTP_INTERCHAIN).Ok)
	require.True(t, dupHandle(t, w, im, 10, dupToD, pb.IBTP_INTERCHAIN).Ok)
	require.True(t, dupHandle(t, w, im, 11, dupToB, pb.IBTP_RECEIPT_SUCCESS).Ok)

	// the same receipt again is refused (the child's state machine has no success -> success edge)
	res := dupHandle(t, w, im, 12, dupToB, pb.IBTP_RECEIPT_SUCCESS)
	require.False(t, res.Ok, "duplicate success receipt accepted")

	// the contradicting receipt for the same child
	res = dupHandle(t, w, im, 13, dupToB, pb.IBTP_RECEIPT_FAILURE)
	require.False(t, res.Ok, "a failure receipt for a child that already reported success was accepted: %s", string(res.Result))
	require.False(t, im.Has(MultiTxNotifyKey(13)), "the rejected receipt must not cause rollback notifications")
	_ = idB
}
