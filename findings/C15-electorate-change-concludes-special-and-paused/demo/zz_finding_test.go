package executor_test

// C15 / item 3: an electorate change concludes a special proposal the super administrator has not voted on,
// and concludes a paused proposal (changing an object that is in the hands of the proposal that paused it).
//
// Real ledger (leveldb + block file), real genesis, real BlockExecutor, real contracts
// through BoltVM; every call below is a signed transaction in a block of its own.

import (
	"encoding/json"
	"fmt"
	"math/big"
	"path/filepath"
	"testing"
	"time"

	"github.com/meshplus/bitxhub-core/governance"
	"github.com/meshplus/bitxhub-kit/crypto"
	"github.com/meshplus/bitxhub-kit/crypto/asym/ecdsa"
	"github.com/meshplus/bitxhub-kit/log"
	"github.com/meshplus/bitxhub-kit/storage/blockfile"
	"github.com/meshplus/bitxhub-kit/storage/leveldb"
	"github.com/meshplus/bitxhub-model/constant"
	"github.com/meshplus/bitxhub-model/pb"
	"github.com/meshplus/bitxhub/internal/executor"
	"github.com/meshplus/bitxhub/internal/executor/contracts"
	"github.com/meshplus/bitxhub/internal/executor/oracle/appchain"
	"github.com/meshplus/bitxhub/internal/ledger"
	"github.com/meshplus/bitxhub/internal/ledger/genesis"
	"github.com/meshplus/bitxhub/internal/model/events"
	"github.com/meshplus/bitxhub/internal/repo"
	"github.com/stretchr/testify/require"
)

type findingAdmin struct {
	name string
	key  crypto.PrivateKey
	addr string
}

type findingChain struct {
	t      *testing.T
	ldg    *ledger.Ledger
	exec   *executor.BlockExecutor
	ch     chan events.ExecutedEvent
	height uint64
	clock  int64
	nonce  map[string]uint64
}

// a fixed key per name: the run does not depend on random addresses
func findingKey(t *testing.T, name string, seed byte) *findingAdmin {
	raw := make([]byte, 32)
	for i := range raw {
		raw[i] = seed
	}
	key, err := ecdsa.UnmarshalPrivateKey(raw, crypto.Secp256k1)
	require.Nil(t, err)
	addr, err := key.PublicKey().Address()
	require.Nil(t, err)
	return &findingAdmin{name: name, key: key, addr: addr.String()}
}

// S is the super administrator (weight 2), A, B and C are ordinary administrators (weight 1)
func newFindingChain(t *testing.T, admins ...*findingAdmin) *findingChain {
	root := t.TempDir()
	config, err := repo.DefaultConfig()
	require.Nil(t, err)
	for i, a := range admins {
		weight := uint64(repo.NormalAdminWeight)
		if i == 0 {
			weight = repo.SuperAdminWeight
		}
		config.Genesis.Admins = append(config.Genesis.Admins, &repo.Admin{Address: a.addr, Weight: weight})
	}

	blockchainStorage, err := leveldb.New(filepath.Join(root, "storage"))
	require.Nil(t, err)
	ldb, err := leveldb.New(filepath.Join(root, "ledger"))
	require.Nil(t, err)
	accountCache, err := ledger.NewAccountCache()
	require.Nil(t, err)
	blockFile, err := blockfile.NewBlockFile(root, log.NewWithModule("blockfile"))
	require.Nil(t, err)
	rep := &repo.Repo{Key: &repo.Key{PrivKey: admins[0].key, Address: admins[0].addr}, Config: config}
	ldg, err := ledger.New(rep, blockchainStorage, ldb, blockFile, accountCache, log.NewWithModule("ledger"))
	require.Nil(t, err)

	viewExec, err := executor.New(ldg, log.NewWithModule("executor"), &appchain.Client{}, config, big.NewInt(0))
	require.Nil(t, err)
	require.Nil(t, genesis.Initialize(&config.Genesis, nil, 0, ldg, viewExec))

	exec, err := executor.New(ldg, log.NewWithModule("executor"), &appchain.Client{}, config, big.NewInt(1))
	require.Nil(t, err)
	require.Nil(t, exec.Start())
	t.Cleanup(func() { _ = exec.Stop() })

	c := &findingChain{t: t, ldg: ldg, exec: exec, ch: make(chan events.ExecutedEvent, 16),
		height: ldg.GetChainMeta().Height, clock: 1700000000000000000, nonce: map[string]uint64{}}
	sub := exec.SubscribeBlockEvent(c.ch)
	t.Cleanup(sub.Unsubscribe)
	return c
}

// one signed BVM transaction, executed and persisted as the only transaction of the next block
func (c *findingChain) invoke(from *findingAdmin, to constant.BoltContractAddress, method string, args ...*pb.Arg) *pb.Receipt {
	payload, err := (&pb.InvokePayload{Method: method, Args: args}).Marshal()
	require.Nil(c.t, err)
	data, err := (&pb.TransactionData{Type: pb.TransactionData_INVOKE, VmType: pb.TransactionData_BVM, Payload: payload}).Marshal()
	require.Nil(c.t, err)
	c.clock++
	tx := &pb.BxhTransaction{From: nil, To: to.Address(), Payload: data, Timestamp: c.clock, Nonce: c.nonce[from.addr]}
	c.nonce[from.addr]++
	fromAddr, err := from.key.PublicKey().Address()
	require.Nil(c.t, err)
	tx.From = fromAddr
	require.Nil(c.t, tx.Sign(from.key))
	tx.TransactionHash = tx.Hash()

	c.height++
	block := &pb.Block{
		BlockHeader:  &pb.BlockHeader{Number: c.height, Timestamp: c.clock},
		Transactions: &pb.Transactions{Transactions: []pb.Transaction{tx}},
	}
	block.BlockHash = block.Hash()
	c.exec.ExecuteBlock(&pb.CommitEvent{Block: block, LocalList: []bool{false}})
	select {
	case ev := <-c.ch:
		require.EqualValues(c.t, c.height, ev.Block.Height())
	case <-time.After(30 * time.Second):
		c.t.Fatalf("block %d (%s) was not executed", c.height, method)
	}
	receipt, err := c.ldg.GetReceipt(tx.TransactionHash)
	require.Nil(c.t, err)
	return receipt
}

func (c *findingChain) mustInvoke(from *findingAdmin, to constant.BoltContractAddress, method string, args ...*pb.Arg) []byte {
	r := c.invoke(from, to, method, args...)
	require.Equal(c.t, pb.Receipt_SUCCESS, r.Status, "%s by %s: %s", method, from.name, string(r.Ret))
	return r.Ret
}

func (c *findingChain) proposalID(ret []byte) string {
	gr := &governance.GovernanceResult{}
	require.Nil(c.t, json.Unmarshal(ret, gr))
	require.NotEmpty(c.t, gr.ProposalID)
	return gr.ProposalID
}

func (c *findingChain) proposal(by *findingAdmin, id string) *contracts.Proposal {
	p := &contracts.Proposal{}
	require.Nil(c.t, json.Unmarshal(c.mustInvoke(by, constant.GovernanceContractAddr, "GetProposal", pb.String(id)), p))
	return p
}

func (c *findingChain) vote(by *findingAdmin, id, ballot string) {
	c.mustInvoke(by, constant.GovernanceContractAddr, "Vote", pb.String(id), pb.String(ballot), pb.String("r"))
}

func (c *findingChain) role(by *findingAdmin, id string) *contracts.Role {
	r := &contracts.Role{}
	require.Nil(c.t, json.Unmarshal(c.mustInvoke(by, constant.RoleContractAddr, "GetRoleInfoById", pb.String(id)), r))
	return r
}

// FreezeRole(target) proposed by `by` and approved by the three voters (one of them the super administrator)
func (c *findingChain) freeze(target, by *findingAdmin, voters ...*findingAdmin) {
	id := c.proposalID(c.mustInvoke(by, constant.RoleContractAddr, "FreezeRole", pb.String(target.addr), pb.String("freeze "+target.name)))
	for _, v := range voters {
		c.vote(v, id, contracts.BallotApprove)
	}
	fp := c.proposal(by, id)
	require.Equal(c.t, contracts.APPROVED, fp.Status, "freeze proposal of %s", target.name)
	require.Equal(c.t, governance.GovernanceFrozen, c.role(by, target.addr).Status)
}

func describe(p *contracts.Proposal) string {
	return fmt.Sprintf("status=%s end_reason=%q approve=%d against=%d initial=%d available=%d super_voted=%v",
		p.Status, p.EndReason, p.ApproveNum, p.AgainstNum, p.InitialElectorateNum, p.AvailableElectorateNum, p.IsSuperAdminVoted)
}

// RegisterRole of a new governance administrator: a RoleMgr proposal, i.e. a special one
func (c *findingChain) registerAdmin(by *findingAdmin, newcomer *findingAdmin) string {
	ret := c.mustInvoke(by, constant.RoleContractAddr, "RegisterRole",
		pb.String(newcomer.addr), pb.String(string(contracts.GovernanceAdmin)), pb.String(""), pb.String("new admin"))
	return c.proposalID(ret)
}

// A, B and C approve a special proposal. Voting does not conclude it: S has not voted. Then C is frozen
// (S votes on the freeze proposal, never on P) and the electorate update APPROVES P and registers the new
// administrator - without any vote of the super administrator.
func TestFindingC15Item3_ApprovedWithoutSuperAdmin(t *testing.T) {
	S, A, B, C := findingKey(t, "S", 1), findingKey(t, "A", 2), findingKey(t, "B", 3), findingKey(t, "C", 4)
	E := findingKey(t, "E", 8)
	c := newFindingChain(t, S, A, B, C)

	pid := c.registerAdmin(A, E)
	require.True(t, c.proposal(A, pid).IsSpecial)
	c.vote(A, pid, contracts.BallotApprove)
	c.vote(B, pid, contracts.BallotApprove)
	c.vote(C, pid, contracts.BallotApprove)
	p := c.proposal(A, pid)
	t.Logf("after A, B, C approve: %s", describe(p))
	require.Equal(t, contracts.PROPOSED, p.Status, "3 of 4 approvals, but the super administrator has not voted")
	require.Equal(t, governance.GovernanceRegisting, c.role(A, E.addr).Status)

	c.freeze(C, A, A, B, S)
	p = c.proposal(A, pid)
	t.Logf("after C is frozen:     %s; role of E: %s", describe(p), c.role(A, E.addr).Status)
	require.False(t, p.IsSuperAdminVoted)
	require.Equal(t, contracts.PROPOSED, p.Status,
		"the special proposal was concluded although the super administrator never voted on it: %s", describe(p))
	require.Equal(t, governance.GovernanceRegisting, c.role(A, E.addr).Status,
		"the new administrator was registered by a proposal the super administrator never voted on")

	// the super administrator decides
	c.vote(S, pid, contracts.BallotApprove)
	p = c.proposal(A, pid)
	t.Logf("after S approves:      %s; role of E: %s", describe(p), c.role(A, E.addr).Status)
	require.Equal(t, contracts.APPROVED, p.Status)
	require.Equal(t, contracts.NormalReason, p.EndReason)
	require.Equal(t, governance.GovernanceAvailable, c.role(A, E.addr).Status)
}

// B and C reject a special proposal: approval is unreachable, but voting keeps it open until S has voted.
// Freezing B runs the same tally through UpdateAvailableElectorateNum, which rejects it without S's vote.
func TestFindingC15Item3_RejectedWithoutSuperAdmin(t *testing.T) {
	S, A, B, C := findingKey(t, "S", 1), findingKey(t, "A", 2), findingKey(t, "B", 3), findingKey(t, "C", 4)
	E := findingKey(t, "E", 8)
	c := newFindingChain(t, S, A, B, C)

	pid := c.registerAdmin(A, E)
	c.vote(B, pid, contracts.BallotReject)
	c.vote(C, pid, contracts.BallotReject)
	p := c.proposal(A, pid)
	t.Logf("after B, C reject: %s", describe(p))
	require.Equal(t, contracts.PROPOSED, p.Status, "voting does not conclude a special proposal before the super administrator voted")

	c.freeze(B, A, A, C, S)
	p = c.proposal(A, pid)
	t.Logf("after B is frozen: %s", describe(p))
	require.False(t, p.IsSuperAdminVoted)
	require.Equal(t, contracts.PROPOSED, p.Status,
		"the special proposal was concluded although the super administrator never voted on it: %s", describe(p))

	c.vote(S, pid, contracts.BallotApprove)
	p = c.proposal(A, pid)
	t.Logf("after S votes:     %s", describe(p))
	require.Equal(t, contracts.REJECTED, p.Status)
	require.Equal(t, governance.GovernanceUnavailable, c.role(A, E.addr).Status)
}

// keeping the proposal open must not leave it open for ever: A, B and C reject, A and B are frozen
// (more rejections than available electors), and the vote of the super administrator concludes it.
func TestFindingC15Item3_SuperAdminVoteStillConcludes(t *testing.T) {
	S, A, B, C := findingKey(t, "S", 1), findingKey(t, "A", 2), findingKey(t, "B", 3), findingKey(t, "C", 4)
	E := findingKey(t, "E", 8)
	c := newFindingChain(t, S, A, B, C)

	pid := c.registerAdmin(A, E)
	c.vote(A, pid, contracts.BallotReject)
	c.vote(B, pid, contracts.BallotReject)
	c.vote(C, pid, contracts.BallotReject)
	c.freeze(A, B, B, C, S) // electorate S,A,B,C
	require.Equal(t, contracts.PROPOSED, c.proposal(S, pid).Status,
		"the special proposal was concluded although the super administrator never voted on it: %s", describe(c.proposal(S, pid)))
	c.freeze(B, C, C, S) // electorate S,B,C
	p := c.proposal(S, pid)
	t.Logf("after A, B are frozen: %s", describe(p))
	require.Equal(t, contracts.PROPOSED, p.Status)
	require.EqualValues(t, 2, p.AvailableElectorateNum)

	c.vote(S, pid, contracts.BallotApprove)
	p = c.proposal(S, pid)
	t.Logf("after S votes:         %s", describe(p))
	require.Equal(t, contracts.REJECTED, p.Status, "every elector has voted, the proposal must be concluded")
	require.Equal(t, governance.GovernanceUnavailable, c.role(S, E.addr).Status)
}

// F (freeze C) is paused by L (logout C): C is "logouting" and belongs to L. An electorate change
// concludes the PAUSED F, whose reject handler moves C back to "available" while L is still open; L can
// then never be concluded (its approve finds no transition from "available").
func TestFindingC15Item3_PausedProposalConcluded(t *testing.T) {
	S, A, B, C, D := findingKey(t, "S", 1), findingKey(t, "A", 2), findingKey(t, "B", 3), findingKey(t, "C", 4), findingKey(t, "D", 5)
	c := newFindingChain(t, S, A, B, C, D)

	fid := c.proposalID(c.mustInvoke(A, constant.RoleContractAddr, "FreezeRole", pb.String(C.addr), pb.String("freeze C")))
	c.vote(B, fid, contracts.BallotReject)
	c.vote(D, fid, contracts.BallotReject)
	require.Equal(t, contracts.PROPOSED, c.proposal(S, fid).Status)
	require.Equal(t, governance.GovernanceFreezing, c.role(S, C.addr).Status)

	lid := c.proposalID(c.mustInvoke(C, constant.RoleContractAddr, "LogoutRole", pb.String(C.addr), pb.String("logout C")))
	require.Equal(t, contracts.PAUSED, c.proposal(S, fid).Status)
	require.Equal(t, fid, c.proposal(S, lid).LockProposalId)
	require.Equal(t, governance.GovernanceLogouting, c.role(S, C.addr).Status)

	c.freeze(A, B, B, D, S) // A never voted on F: at most S can still approve it
	f, l := c.proposal(S, fid), c.proposal(S, lid)
	t.Logf("after A is frozen: F: %s", describe(f))
	t.Logf("                   L: %s; role of C: %s", describe(l), c.role(S, C.addr).Status)
	require.Equal(t, contracts.PROPOSED, l.Status)
	require.EqualValues(t, 4, f.AvailableElectorateNum, "the electorate of the paused proposal is kept up to date")
	require.Equal(t, contracts.PAUSED, f.Status, "a paused proposal was concluded by an electorate change: %s", describe(f))
	require.Equal(t, governance.GovernanceLogouting, c.role(S, C.addr).Status,
		"the logout proposal is still open, but the role was moved by the paused freeze proposal")

	// the logout proposal concludes and settles the paused proposal
	c.vote(S, lid, contracts.BallotApprove)
	c.vote(B, lid, contracts.BallotApprove)
	r := c.invoke(D, constant.GovernanceContractAddr, "Vote", pb.String(lid), pb.String(contracts.BallotApprove), pb.String("r"))
	require.Equal(t, pb.Receipt_SUCCESS, r.Status, "the vote concluding the logout proposal failed: %s", string(r.Ret))
	f, l = c.proposal(S, fid), c.proposal(S, lid)
	t.Logf("after L is voted:  F: %s", describe(f))
	t.Logf("                   L: %s; role of C: %s", describe(l), c.role(S, C.addr).Status)
	require.Equal(t, contracts.APPROVED, l.Status)
	require.Equal(t, contracts.REJECTED, f.Status)
	require.Equal(t, governance.GovernanceForbidden, c.role(S, C.addr).Status)
}
