package executor

// Demonstration for the seeded defect C04.
// Place this file at internal/executor/zz_seed_c04_test.go and run
//   go test -ldflags=-checklinkname=0 -vet=off -count=1 -run TestSeedC04 ./internal/executor/
//
// It drives the REAL block executor (processExecuteEvent) over a REAL ledger with the REAL
// interchain / transaction-manager contracts. The node plays the role of the DESTINATION
// BitXHub ("<chainID>") of a one-to-one cross-chain transaction coming from another BitXHub ("2").

import (
	"encoding/json"
	"fmt"
	"io/ioutil"
	"math/big"
	"path/filepath"
	"strconv"
	"testing"
	"time"

	"github.com/meshplus/bitxhub-core/agency"
	appchainMgr "github.com/meshplus/bitxhub-core/appchain-mgr"
	"github.com/meshplus/bitxhub-core/governance"
	service_mgr "github.com/meshplus/bitxhub-core/service-mgr"
	"github.com/meshplus/bitxhub-kit/log"
	"github.com/meshplus/bitxhub-kit/storage/blockfile"
	"github.com/meshplus/bitxhub-kit/storage/leveldb"
	"github.com/meshplus/bitxhub-kit/types"
	"github.com/meshplus/bitxhub-model/constant"
	"github.com/meshplus/bitxhub-model/pb"
	"github.com/meshplus/bitxhub/internal/executor/contracts"
	"github.com/meshplus/bitxhub/internal/executor/oracle/appchain"
	"github.com/meshplus/bitxhub/internal/ledger"
	"github.com/stretchr/testify/require"
)

type probeSrcEnv struct {
	t      *testing.T
	exec   *BlockExecutor
	ldg    *ledger.Ledger
	sender *types.Address
	nonce  uint64
	height uint64
}

func newProbeSrcEnv(t *testing.T) *probeSrcEnv {
	config := generateMockConfig(t)
	config.EnableAudit = false
	repoRoot, err := ioutil.TempDir("", "seedc04")
	require.Nil(t, err)

	blockchainStorage, err := leveldb.New(filepath.Join(repoRoot, "storage"))
	require.Nil(t, err)
	ldb, err := leveldb.New(filepath.Join(repoRoot, "ledger"))
	require.Nil(t, err)
	accountCache, err := ledger.NewAccountCache()
	require.Nil(t, err)
	blockFile, err := blockfile.NewBlockFile(repoRoot, log.NewWithModule("seedc04"))
	require.Nil(t, err)
	ldg, err := ledger.New(createMockRepo(t), blockchainStorage, ldb, blockFile, accountCache, log.NewWithModule("ledger"))
	require.Nil(t, err)

	_, sender := loadAdminKey(t)
	hubID := strconv.FormatUint(config.ChainID, 10)

	// genesis-like state (block 1): a funded sender, the id of this hub, and the registration of
	// the other BitXHub "2" as an available relay chain
	ldg.SetBalance(sender, new(big.Int).Mul(big.NewInt(1000000000), big.NewInt(1000000000)))
	ldg.SetState(constant.InterchainContractAddr.Address(), []byte(contracts.BitXHubID), []byte(hubID), nil)
	otherHub := &appchainMgr.Appchain{
		ID:        "2",
		ChainName: "otherhub",
		ChainType: appchainMgr.RelaychainType,
		Status:    governance.GovernanceAvailable,
	}
	otherHubData, err := json.Marshal(otherHub)
	require.Nil(t, err)
	ldg.SetState(constant.AppchainMgrContractAddr.Address(), []byte(appchainMgr.AppchainKey("2")), otherHubData, nil)

	account, journal := ldg.FlushDirtyData()
	require.Nil(t, ldg.Commit(1, account, journal))
	require.Nil(t, ldg.PersistExecutionResult(mockBlock(1, nil), nil, &pb.InterchainMeta{}))

	exec, err := New(ldg, log.NewWithModule("executor"), &appchain.Client{}, config, big.NewInt(1))
	require.Nil(t, err)

	// the destination service, registered in this hub, available and ordered
	exec.serviceCache.Store("chainA:svcA", &service_mgr.Service{
		ChainID:   "chainA",
		ServiceID: "svcA",
		Name:      "svcA",
		Ordered:   true,
		Status:    governance.GovernanceAvailable,
	})

	return &probeSrcEnv{t: t, exec: exec, ldg: ldg, sender: sender, height: 1}
}

func (e *probeSrcEnv) hubID() string {
	return strconv.FormatUint(e.exec.config.ChainID, 10)
}

func (e *probeSrcEnv) ibtpTx(ibtp *pb.IBTP) pb.Transaction {
	tx := &pb.BxhTransaction{
		From:      e.sender,
		To:        constant.InterchainContractAddr.Address(),
		Timestamp: time.Now().UnixNano(),
		Nonce:     e.nonce,
		IBTP:      ibtp,
	}
	e.nonce++
	tx.TransactionHash = tx.Hash()
	return tx
}

func (e *probeSrcEnv) ibtp(index uint64, typ pb.IBTP_Type, timeout int64) *pb.IBTP {
	content := pb.Content{Func: "set"}
	cb, err := content.Marshal()
	require.Nil(e.t, err)
	payload := pb.Payload{Content: cb}
	pd, err := payload.Marshal()
	require.Nil(e.t, err)
	return &pb.IBTP{
		From:          fmt.Sprintf("%s:chainA:svcA", e.hubID()),
		To:            "2:chainB:svcB",
		Index:         index,
		Type:          typ,
		TimeoutHeight: timeout,
		Payload:       pd,
	}
}

// executeBlock runs the production block pipeline (apply transactions, timeout list bookkeeping,
// timeout rollback, persist) for the next block. Proof/signature verification is the business of
// other components; block.Extra != nil is the executor's own switch for "proofs already checked".
func (e *probeSrcEnv) executeBlock(txs ...pb.Transaction) []*pb.Receipt {
	e.height++
	block := mockBlock(e.height, txs)
	block.Extra = []byte("verified")
	var receipts []*pb.Receipt
	e.exec.processExecuteEvent(&BlockWrapper{block: block, invalidTx: make(map[int]agency.InvalidReason)})
	require.Equal(e.t, e.height, e.exec.currentHeight)
	for _, tx := range txs {
		r, err := e.ldg.GetReceipt(tx.GetHash())
		require.Nil(e.t, err)
		receipts = append(receipts, r)
	}
	return receipts
}

// status asks the transaction manager contract (the status query of the system).
func (e *probeSrcEnv) status(txID string) pb.TransactionStatus {
	ok, val := e.ldg.GetState(constant.TransactionMgrContractAddr.Address(), []byte(contracts.TxInfoKey(txID)))
	require.True(e.t, ok, "no record for %s", txID)
	record := pb.TransactionRecord{}
	require.Nil(e.t, record.Unmarshal(val))

	// cross-check with the contract's own GetStatus
	privKey, _ := loadAdminKey(e.t)
	tx, err := genBVMContractTransaction(privKey, e.nonce, constant.TransactionMgrContractAddr.Address(), "GetStatus", pb.String(txID))
	require.Nil(e.t, err)
	rs := e.exec.ApplyReadonlyTransactions([]pb.Transaction{tx})
	require.Len(e.t, rs, 1)
	require.Equal(e.t, pb.Receipt_SUCCESS, rs[0].Status, string(rs[0].Ret))
	n, err := strconv.Atoi(string(rs[0].Ret))
	require.Nil(e.t, err)
	require.Equal(e.t, record.Status, pb.TransactionStatus(n))
	return record.Status
}

func TestProbeSourceHubTimeout(t *testing.T) {
	e := newProbeSrcEnv(t)
	from := fmt.Sprintf("%s:chainA:svcA", e.hubID())
	id1 := fmt.Sprintf("%s-2:chainB:svcB-1", from)

	rs := e.executeBlock(e.ibtpTx(e.ibtp(1, pb.IBTP_INTERCHAIN, 3)))
	require.Equal(t, pb.Receipt_SUCCESS, rs[0].Status, string(rs[0].Ret))
	require.Equal(t, pb.TransactionStatus_BEGIN, e.status(id1))

	// block 3: the destination hub answers with a success receipt carrying its proof
	rc := e.ibtp(1, pb.IBTP_RECEIPT_SUCCESS, 0)
	bp := &pb.BxhProof{TxStatus: pb.TransactionStatus_SUCCESS}
	extra, err := bp.Marshal()
	require.Nil(t, err)
	rc.Extra = extra
	rs = e.executeBlock(e.ibtpTx(rc))
	require.Equal(t, pb.Receipt_SUCCESS, rs[0].Status, string(rs[0].Ret))
	require.Equal(t, pb.TransactionStatus_SUCCESS, e.status(id1))

	e.executeBlock()
	e.executeBlock() // block 5 = 2 + 3
	require.Equal(t, pb.TransactionStatus_SUCCESS, e.status(id1), "final status changed at the timeout height on the SOURCE hub")
}
