package ledger

import (
	"testing"

	"github.com/meshplus/bitxhub-kit/bytesutil"
	"github.com/meshplus/bitxhub-kit/types"
	"github.com/stretchr/testify/require"
)

// An empty value is a value: nil marks an absent (or deleted) key.
// 1. a block writes "" to a key that does not exist yet: inside the block the key is live; after flush + commit
//    the latest write must still be there and the state root must differ from the root of a block that wrote nothing.
// 2. a later block deletes the key that holds "": after flush + commit the key must be gone.
func TestProbeEmptyValueIsAChange(t *testing.T) {
	lg, _ := initLedger(t, "")
	sl := lg.StateLedger.(*SimpleLedger)
	addr := types.NewAddress(bytesutil.LeftPadBytes([]byte{101}, 20))

	// block 1: make the account exist with some other key
	lg.SetState(addr, []byte("other"), []byte("x"), nil)
	accounts, root1 := lg.FlushDirtyData()
	require.Nil(t, lg.Commit(1, accounts, root1))

	// block 2: write the empty value to a fresh key
	lg.SetState(addr, []byte("list"), []byte(""), nil)
	ok, v := lg.GetState(addr, []byte("list"))
	require.True(t, ok, "inside the block the key is live")
	require.Equal(t, 0, len(v))
	accounts, root2 := lg.FlushDirtyData()
	require.Nil(t, lg.Commit(2, accounts, root2))

	// the same block without the write, on a second ledger
	lg2, _ := initLedger(t, "")
	lg2.SetState(addr, []byte("other"), []byte("x"), nil)
	a2, r1 := lg2.FlushDirtyData()
	require.Nil(t, lg2.Commit(1, a2, r1))
	require.Equal(t, root1.String(), r1.String())
	a2, r2 := lg2.FlushDirtyData()
	require.Nil(t, lg2.Commit(2, a2, r2))
	require.NotEqual(t, r2.String(), root2.String(), "the state root must commit to the write of the empty value")

	// drop every in-memory layer: the database must hold the write
	sl.accountCache.clear()
	sl.Clear()
	ok, _ = lg.GetState(addr, []byte("list"))
	require.True(t, ok, "after commit the latest write (an empty value) must still be readable")

	// block 3: delete the key holding ""
	lg.SetState(addr, []byte("list"), nil, nil)
	ok, _ = lg.GetState(addr, []byte("list"))
	require.False(t, ok)
	accounts, root3 := lg.FlushDirtyData()
	require.Nil(t, lg.Commit(3, accounts, root3))
	sl.accountCache.clear()
	sl.Clear()
	ok, _ = lg.GetState(addr, []byte("list"))
	require.False(t, ok, "after commit the deletion must be in the database")
}
