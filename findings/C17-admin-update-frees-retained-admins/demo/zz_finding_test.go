package executor_test

// Triage demo, item 2: FreeAccount releases appchain admins that stay admins.
//
// Real simple ledger (leveldb), real genesis, real BlockExecutor; every step is a signed
// transaction in a block handed to BlockExecutor.ExecuteBlock (signature check, BoltVM, the
// real AppchainManager / RoleManager / Governance / RuleManager / ServiceManager contracts).
// No mocks.

import (
	"encoding/json"
	"fmt"
	"io/ioutil"
	"math/big"
	"os"
	"path/filepath"
	"testing"
	"time"

	"github.com/meshplus/bitxhub-core/governance"
	"github.com/meshplus/bitxhub-core/validator"
	"github.com/meshplus/bitxhub-kit/crypto"
	"github.com/meshplus/bitxhub-kit/crypto/asym/ecdsa"
	"github.com/meshplus/bitxhub-kit/log"
	"github.com/meshplus/bitxhub-kit/storage/blockfile"
	"github.com/meshplus/bitxhub-kit/storage/leveldb"
	"github.com/meshplus/bitxhub-kit/types"
	"github.com/meshplus/bitxhub-model/constant"
	"github.com/meshplus/bitxhub-model/pb"
	"github.com/meshplus/bitxhub/internal/executor"
	"github.com/meshplus/bitxhub/internal/executor/contracts"
	"github.com/meshplus/bitxhub/internal/executor/oracle/appchain"
	"github.com/meshplus/bitxhub/internal/ledger"
	"github.com/meshplus/bitxhub/internal/ledger/genesis"
	"github.com/meshplus/bitxhub/internal/model/events"
	"github.com/meshplus/bitxhub/internal/repo"
	"github.com/stretchr/testify/require"
)

// ---------------------------------------------------------------- harness

type zzAccount struct {
	key  crypto.PrivateKey
	addr *types.Address
}

// deterministic secp256k1 key: 32 bytes, all equal to seed
func zzNewAccount(t *testing.T, seed byte) *zzAccount {
	raw := make([]byte, 32)
	for i := range raw {
		raw[i] = seed
	}
	key, err := ecdsa.UnmarshalPrivateKey(raw, crypto.Secp256k1)
	require.Nil(t, err)
	addr, err := key.PublicKey().Address()
	require.Nil(t, err)
	return &zzAccount{key: key, addr: addr}
}

type zzHub struct {
	t      *testing.T
	ldg    *ledger.Ledger
	exec   *executor.BlockExecutor
	blocks chan events.ExecutedEvent
	height uint64
	clock  int64
	nonces map[string]uint64
	admins []*zzAccount // governance admins, admins[0] is the super admin
}

func zzNewHub(t *testing.T, enableAudit bool) *zzHub {
	root, err := ioutil.TempDir("", "zz_finding")
	require.Nil(t, err)
	t.Cleanup(func() { _ = os.RemoveAll(root) })

	config, err := repo.DefaultConfig()
	require.Nil(t, err)
	config.RepoRoot = root
	config.Executor.Type = "serial"
	config.Executor.EnableAudit = enableAudit
	config.Ledger.Type = "simple"

	h := &zzHub{t: t, nonces: map[string]uint64{}, clock: 1600000000000000000}
	for i := 0; i < 4; i++ {
		a := zzNewAccount(t, byte(0x11+i))
		h.admins = append(h.admins, a)
		weight := uint64(repo.NormalAdminWeight)
		if i == 0 {
			weight = repo.SuperAdminWeight
		}
		config.Genesis.Admins = append(config.Genesis.Admins, &repo.Admin{Address: a.addr.String(), Weight: weight})
	}

	rep := &repo.Repo{
		Key:    &repo.Key{PrivKey: h.admins[0].key, Address: h.admins[0].addr.String()},
		Config: config,
	}

	chainStore, err := leveldb.New(filepath.Join(root, "storage"))
	require.Nil(t, err)
	stateStore, err := leveldb.New(filepath.Join(root, "ledger"))
	require.Nil(t, err)
	bf, err := blockfile.NewBlockFile(root, log.NewWithModule("blockfile"))
	require.Nil(t, err)
	h.ldg, err = ledger.New(rep, chainStore, stateStore, bf, nil, log.NewWithModule("ledger"))
	require.Nil(t, err)

	// the node does the same on first start (internal/app): genesis through a view executor
	viewExec, err := executor.New(h.ldg, log.NewWithModule("executor"), &appchain.Client{}, config, big.NewInt(0))
	require.Nil(t, err)
	require.Nil(t, genesis.Initialize(&config.Genesis, nil, 0, h.ldg, viewExec))

	h.exec, err = executor.New(h.ldg, log.NewWithModule("executor"), &appchain.Client{}, config, big.NewInt(0))
	require.Nil(t, err)
	require.Nil(t, h.exec.Start())
	t.Cleanup(func() { _ = h.exec.Stop() })

	h.blocks = make(chan events.ExecutedEvent, 16)
	sub := h.exec.SubscribeBlockEvent(h.blocks)
	t.Cleanup(sub.Unsubscribe)
	h.height = h.ldg.GetChainMeta().Height
	require.EqualValues(t, 1, h.height)
	return h
}

// invoke executes ONE signed BVM transaction in its own block and returns its receipt.
func (h *zzHub) invoke(from *zzAccount, contract constant.BoltContractAddress, method string, args ...*pb.Arg) *pb.Receipt {
	t := h.t
	payload, err := (&pb.InvokePayload{Method: method, Args: args}).Marshal()
	require.Nil(t, err)
	data, err := (&pb.TransactionData{Type: pb.TransactionData_INVOKE, VmType: pb.TransactionData_BVM, Payload: payload}).Marshal()
	require.Nil(t, err)

	h.clock += int64(time.Second)
	tx := &pb.BxhTransaction{
		From:      from.addr,
		To:        contract.Address(),
		Payload:   data,
		Timestamp: h.clock,
		Nonce:     h.nonces[from.addr.String()],
	}
	h.nonces[from.addr.String()]++
	require.Nil(t, tx.Sign(from.key))
	tx.TransactionHash = tx.Hash()

	h.height++
	block := &pb.Block{
		BlockHeader:  &pb.BlockHeader{Version: []byte("1.0.0"), Number: h.height, Timestamp: h.clock},
		Transactions: &pb.Transactions{Transactions: []pb.Transaction{tx}},
	}
	h.exec.ExecuteBlock(&pb.CommitEvent{Block: block})

	select {
	case ev := <-h.blocks:
		require.EqualValues(t, h.height, ev.Block.Height())
	case <-time.After(30 * time.Second):
		t.Fatalf("block %d was not executed", h.height)
	}
	receipt, err := h.ldg.GetReceipt(tx.TransactionHash)
	require.Nil(t, err)
	return receipt
}

func (h *zzHub) mustInvoke(from *zzAccount, contract constant.BoltContractAddress, method string, args ...*pb.Arg) *pb.Receipt {
	r := h.invoke(from, contract, method, args...)
	require.True(h.t, r.IsSuccess(), "%s by %s failed: %s", method, from.addr.String(), string(r.Ret))
	return r
}

func (h *zzHub) proposalID(r *pb.Receipt) string {
	gr := &governance.GovernanceResult{}
	require.Nil(h.t, json.Unmarshal(r.Ret, gr), string(r.Ret))
	require.NotEmpty(h.t, gr.ProposalID, string(r.Ret))
	return gr.ProposalID
}

func (h *zzHub) proposalStatus(id string) contracts.ProposalStatus {
	r := h.mustInvoke(h.admins[0], constant.GovernanceContractAddr, "GetProposal", pb.String(id))
	p := &contracts.Proposal{}
	require.Nil(h.t, json.Unmarshal(r.Ret, p))
	return p.Status
}

// conclude lets the governance admins vote (super admin first) until the proposal is over.
func (h *zzHub) conclude(id string, ballot string, want contracts.ProposalStatus) {
	for _, admin := range h.admins {
		if h.proposalStatus(id) != contracts.PROPOSED {
			break
		}
		h.mustInvoke(admin, constant.GovernanceContractAddr, "Vote", pb.String(id), pb.String(ballot), pb.String("vote"))
	}
	require.Equal(h.t, want, h.proposalStatus(id), "proposal %s", id)
}

func (h *zzHub) registerAppchain(from *zzAccount, chainID, name, adminAddrs string) *pb.Receipt {
	return h.invoke(from, constant.AppchainMgrContractAddr, "RegisterAppchain",
		pb.String(chainID), pb.String(name), pb.Bytes(nil), pb.String("ETH"), pb.Bytes(nil),
		pb.String("0x857133c5C69e6Ce66F7AD46F200B9B3573e77582"), pb.String("desc"),
		pb.String(validator.HappyRuleAddr), pb.String(""), pb.String(adminAddrs), pb.String("reason"))
}

func (h *zzHub) updateAppchain(from *zzAccount, chainID, name, desc, adminAddrs string) *pb.Receipt {
	return h.invoke(from, constant.AppchainMgrContractAddr, "UpdateAppchain",
		pb.String(chainID), pb.String(name), pb.String(desc), pb.Bytes(nil), pb.String(adminAddrs), pb.String("reason"))
}

// ---------------------------------------------------------------- the finding

func TestZZFinding_Item2_FreeAccountReleasesRetainedAdmins(t *testing.T) {
	for _, audit := range []bool{true, false} {
		for _, ballot := range []string{contracts.BallotApprove, contracts.BallotReject} {
			audit, ballot := audit, ballot
			t.Run(fmt.Sprintf("audit=%v/adminUpdate=%s", audit, ballot), func(t *testing.T) {
				h := zzNewHub(t, audit)
				victim := zzNewAccount(t, 0x21)   // admin of chain A, before and after the update
				coAdmin := zzNewAccount(t, 0x22)  // proposed as second admin of chain A
				attacker := zzNewAccount(t, 0x23) // registers chain B later

				// 1. victim registers chain A, governance approves
				r := h.registerAppchain(victim, "chainA", "chain A", victim.addr.String())
				require.True(t, r.IsSuccess(), string(r.Ret))
				h.conclude(h.proposalID(r), contracts.BallotApprove, contracts.APPROVED)

				// 2. victim proposes the admin list {victim, coAdmin}; the proposal is approved resp. rejected.
				//    Either way victim IS an admin of chain A afterwards.
				r = h.updateAppchain(victim, "chainA", "chain A", "desc", victim.addr.String()+","+coAdmin.addr.String())
				require.True(t, r.IsSuccess(), string(r.Ret))
				want := contracts.APPROVED
				if ballot == contracts.BallotReject {
					want = contracts.REJECTED
				}
				h.conclude(h.proposalID(r), ballot, want)

				r = h.mustInvoke(victim, constant.AppchainMgrContractAddr, "GetAdminByChainId", pb.String("chainA"))
				t.Logf("admins of chainA after the update proposal (%s): %s", want, string(r.Ret))
				require.Contains(t, string(r.Ret), victim.addr.String())

				// observation: is the account of the (still) admin occupied?
				occ := h.invoke(victim, constant.RoleContractAddr, "CheckOccupiedAccount", pb.String(victim.addr.String()))
				t.Logf("CheckOccupiedAccount(victim): ok=%v %s   (ok=true means: NOT occupied, may be listed as admin elsewhere)", occ.IsSuccess(), string(occ.Ret))

				// the second address: occupied iff it became an admin (holds on the unchanged tree as well)
				occCo := h.invoke(victim, constant.RoleContractAddr, "CheckOccupiedAccount", pb.String(coAdmin.addr.String()))
				require.Equal(t, want == contracts.REJECTED, occCo.IsSuccess(),
					"co-admin after a %s update: free=%v %s", want, occCo.IsSuccess(), string(occCo.Ret))

				// 3. attacker registers chain B and lists the victim as one of ITS admins
				r = h.registerAppchain(attacker, "chainB", "chain B", attacker.addr.String()+","+victim.addr.String())
				t.Logf("RegisterAppchain(chainB, admins = attacker + victim): success=%v %s", r.IsSuccess(), string(r.Ret))
				if r.IsSuccess() {
					// governance admins approve the registration of chain B (nothing tells them the list is illegal)
					h.conclude(h.proposalID(r), contracts.BallotApprove, contracts.APPROVED)
				}

				// 4. what is left of the victim's rights on chain A
				role := h.mustInvoke(victim, constant.RoleContractAddr, "GetRoleInfoById", pb.String(victim.addr.String()))
				t.Logf("role record of victim: %s", string(role.Ret))
				own := h.updateAppchain(victim, "chainA", "chain A", "desc changed by its admin", victimAdminsAfter(want, victim, coAdmin))
				t.Logf("victim updates the description of chainA: success=%v %s", own.IsSuccess(), string(own.Ret))

				require.False(t, r.IsSuccess(),
					"an address that is admin of chainA was accepted as admin of chainB: %s", string(r.Ret))
				require.False(t, occ.IsSuccess(), "the account of a current admin of chainA is not occupied")
				require.True(t, own.IsSuccess(),
					"the admin of chainA lost PermissionSelf on chainA through somebody else's registration: %s", string(own.Ret))

				// 5. the release of accounts still works: when the co-admin is REMOVED from chainA by an approved
				//    update, his account becomes free (and the retained admin stays occupied)
				if want == contracts.APPROVED {
					r = h.updateAppchain(victim, "chainA", "chain A", "desc", victim.addr.String())
					require.True(t, r.IsSuccess(), string(r.Ret))
					h.conclude(h.proposalID(r), contracts.BallotApprove, contracts.APPROVED)
					occCo = h.invoke(victim, constant.RoleContractAddr, "CheckOccupiedAccount", pb.String(coAdmin.addr.String()))
					require.True(t, occCo.IsSuccess(), "a removed admin must be released: %s", string(occCo.Ret))
					occ = h.invoke(victim, constant.RoleContractAddr, "CheckOccupiedAccount", pb.String(victim.addr.String()))
					require.False(t, occ.IsSuccess(), "the retained admin must stay occupied")
				}
			})
		}
	}
}

func victimAdminsAfter(status contracts.ProposalStatus, victim, coAdmin *zzAccount) string {
	if status == contracts.APPROVED {
		return victim.addr.String() + "," + coAdmin.addr.String()
	}
	return victim.addr.String()
}
