package contracts

// Finding (property C15): a proposal is evaluated against the CURRENT number of available
// electors. For every open (PROPOSED / PAUSED) proposal p this means
//
//	p.AvailableElectorateNum == |{ e in p.ElectorateList : role(e) is available now }|
//
// RoleManager.LogoutRole breaks this for a governance admin: it tests role.IsAvailable() AFTER
// basicGovernance has already moved the role to `logouting`, so the documented decrement never
// runs; a rejected logout nevertheless increments. The counter is too high for ever.
//
// Production path: a BVM transaction to the role contract, method "LogoutRole"
// (`bitxhub client governance role logout`, cmd/bitxhub/client/role_manage.go), sent by the admin
// himself (PermissionSelf) or by any other available admin, followed by ordinary "Vote"
// transactions to the governance contract.
//
// The tests run the REAL Governance, RoleManager and GovStrategy contracts against a small
// in-memory world (harness borrowed from the seed demo): a key/value store namespaced by contract
// address, a CrossInvoke that dispatches by reflection exactly like pkg/vm/boltvm, and a
// transaction wrapper that reverts every write of a failed top-level call.

import (
	"encoding/json"
	"fmt"
	"reflect"
	"sort"
	"strconv"
	"strings"
	"testing"

	"github.com/iancoleman/orderedmap"
	"github.com/meshplus/bitxhub-core/boltvm"
	"github.com/meshplus/bitxhub-core/governance"
	"github.com/meshplus/bitxhub-core/validator"
	"github.com/meshplus/bitxhub-kit/log"
	"github.com/meshplus/bitxhub-kit/types"
	"github.com/meshplus/bitxhub-model/constant"
	"github.com/meshplus/bitxhub-model/pb"
	"github.com/meshplus/bitxhub/internal/repo"
	"github.com/sirupsen/logrus"
)

// ---------------------------------------------------------------- in-memory world

type fndWorld struct {
	state     map[string]map[string][]byte // contract address -> key -> value
	contracts map[string]func() interface{}
	logger    logrus.FieldLogger
	now       int64
}

func newFndWorld() *fndWorld {
	logger := log.NewWithModule("finding")
	logger.Logger.SetLevel(logrus.ErrorLevel)
	return &fndWorld{
		state: map[string]map[string][]byte{},
		contracts: map[string]func() interface{}{
			constant.GovernanceContractAddr.Address().String():          func() interface{} { return &Governance{} },
			constant.RoleContractAddr.Address().String():                func() interface{} { return &RoleManager{} },
			constant.ProposalStrategyMgrContractAddr.Address().String(): func() interface{} { return &GovStrategy{} },
		},
		logger: logger,
		now:    1000,
	}
}

func (w *fndWorld) snapshot() map[string]map[string][]byte {
	cp := map[string]map[string][]byte{}
	for a, kv := range w.state {
		cp[a] = map[string][]byte{}
		for k, v := range kv {
			cp[a][k] = append([]byte(nil), v...)
		}
	}
	return cp
}

func (w *fndWorld) put(addr, key string, v interface{}) {
	data, err := json.Marshal(v)
	if err != nil {
		panic(err)
	}
	if w.state[addr] == nil {
		w.state[addr] = map[string][]byte{}
	}
	w.state[addr][key] = data
}

// tx runs one transaction sent by `from` to a contract method; a failed transaction leaves no trace.
func (w *fndWorld) tx(from, addr, method string, args ...*pb.Arg) *boltvm.Response {
	w.now++
	snap := w.snapshot()
	res := w.call(&fndStub{w: w, caller: from, callee: addr, currentCaller: from}, method, args)
	if !res.Ok {
		w.state = snap
	}
	return res
}

func (w *fndWorld) call(stub *fndStub, method string, args []*pb.Arg) (res *boltvm.Response) {
	defer func() {
		if e := recover(); e != nil {
			res = boltvm.Error(boltvm.OtherInternalErrCode, fmt.Sprintf("%v", e))
		}
	}()
	mk, ok := w.contracts[stub.callee]
	if !ok {
		return boltvm.Error(boltvm.OtherInternalErrCode, fmt.Sprintf("the address %v is not a bolt contract", stub.callee))
	}
	rc := reflect.ValueOf(mk())
	rc.Elem().Field(0).Set(reflect.ValueOf(stub))
	m := rc.MethodByName(method)
	if !m.IsValid() {
		return boltvm.Error(boltvm.OtherInternalErrCode, fmt.Sprintf("not such method `%s`", method))
	}
	in := make([]reflect.Value, len(args))
	for i, a := range args {
		switch a.Type {
		case pb.Arg_U64:
			u, err := strconv.ParseUint(string(a.Value), 10, 64)
			if err != nil {
				return boltvm.Error(boltvm.OtherInternalErrCode, err.Error())
			}
			in[i] = reflect.ValueOf(u)
		case pb.Arg_Bytes:
			in[i] = reflect.ValueOf(a.Value)
		default:
			in[i] = reflect.ValueOf(string(a.Value))
		}
	}
	return m.Call(in)[0].Interface().(*boltvm.Response)
}

// ---------------------------------------------------------------- stub

type fndStub struct {
	w                             *fndWorld
	caller, callee, currentCaller string
}

var _ boltvm.Stub = (*fndStub)(nil)

func (s *fndStub) Caller() string             { return s.caller }
func (s *fndStub) Callee() string             { return s.callee }
func (s *fndStub) CurrentCaller() string      { return s.currentCaller }
func (s *fndStub) Logger() logrus.FieldLogger { return s.w.logger }
func (s *fndStub) GetTxHash() *types.Hash     { return &types.Hash{} }
func (s *fndStub) GetTxTimeStamp() int64      { return s.w.now }
func (s *fndStub) GetTxIndex() uint64         { return 0 }
func (s *fndStub) GetCurrentHeight() uint64   { return 2 }
func (s *fndStub) EnableAudit() bool          { return false }
func (s *fndStub) Has(key string) bool        { ok, _ := s.Get(key); return ok }
func (s *fndStub) Get(key string) (bool, []byte) {
	v, ok := s.w.state[s.callee][key]
	if !ok || v == nil {
		return false, nil
	}
	return true, v
}
func (s *fndStub) GetObject(key string, ret interface{}) bool {
	ok, data := s.Get(key)
	if !ok {
		return false
	}
	return json.Unmarshal(data, ret) == nil
}
func (s *fndStub) Set(key string, value []byte) {
	if s.w.state[s.callee] == nil {
		s.w.state[s.callee] = map[string][]byte{}
	}
	s.w.state[s.callee][key] = value
}
func (s *fndStub) SetObject(key string, value interface{}) {
	data, err := json.Marshal(value)
	if err != nil {
		panic(err)
	}
	s.Set(key, data)
}
func (s *fndStub) Add(key string, value []byte)            { s.Set(key, value) }
func (s *fndStub) AddObject(key string, value interface{}) { s.SetObject(key, value) }
func (s *fndStub) Delete(key string)                       { delete(s.w.state[s.callee], key) }
func (s *fndStub) Query(prefix string) (bool, [][]byte) {
	keys := make([]string, 0)
	for k := range s.w.state[s.callee] {
		if strings.HasPrefix(k, prefix) {
			keys = append(keys, k)
		}
	}
	sort.Strings(keys)
	ret := make([][]byte, 0, len(keys))
	for _, k := range keys {
		ret = append(ret, s.w.state[s.callee][k])
	}
	return len(ret) != 0, ret
}
func (s *fndStub) PostEvent(pb.Event_EventType, interface{}) {}
func (s *fndStub) PostInterchainEvent(interface{})           {}
func (s *fndStub) ValidationEngine() validator.Engine        { return nil }
func (s *fndStub) CrossInvokeEVM(string, []byte) *boltvm.Response {
	return boltvm.Error(boltvm.OtherInternalErrCode, "no evm")
}
func (s *fndStub) GetAccount(string) interface{} { return nil }

// CrossInvoke mirrors pkg/vm/boltvm: the tx sender stays Caller, the invoking contract becomes
// CurrentCaller, and a failing callee is reported as "call error: ...".
func (s *fndStub) CrossInvoke(address, method string, args ...*pb.Arg) *boltvm.Response {
	res := s.w.call(&fndStub{w: s.w, caller: s.caller, callee: address, currentCaller: s.callee}, method, args)
	if !res.Ok {
		return boltvm.Error(boltvm.OtherInternalErrCode, fmt.Sprintf("call error: %s", res.Result))
	}
	return boltvm.Success(res.Result)
}

// ---------------------------------------------------------------- scenario helpers

const (
	fndS = "0xc7F999b83Af6DF9e67d0a37Ee7e900bF38b3D013" // super admin
	fndA = "0x79a1215469FaB6f9c63c1816b45183AD3624bE34"
	fndB = "0x97c8B516D19edBf575D72a172Af7F418BE498C37"
	fndC = "0xc0Ff2e0b3189132D815b8eb325bE17285AC898f8"
	fndX = "0x3f9d18f7c3a6e5e4c0b877fe3e688ab08840b997" // the admin that logs out
)

var (
	fndGov      = constant.GovernanceContractAddr.Address().String()
	fndRoleAddr = constant.RoleContractAddr.Address().String()
	fndStrategy = constant.ProposalStrategyMgrContractAddr.Address().String()
)

func fndGenesis(w *fndWorld) {
	idMap := orderedmap.New()
	for _, id := range []string{fndS, fndA, fndB, fndC, fndX} {
		weight := uint64(repo.NormalAdminWeight)
		if id == fndS {
			weight = repo.SuperAdminWeight
		}
		w.put(fndRoleAddr, RoleKey(id), &Role{ID: id, RoleType: GovernanceAdmin, Weight: weight, Status: governance.GovernanceAvailable})
		idMap.Set(id, struct{}{})
	}
	w.put(fndRoleAddr, RoleTypeKey(string(GovernanceAdmin)), idMap)
	w.state[fndRoleAddr][GenesisBalance] = []byte("100000000")
	for _, m := range mgrs {
		w.put(fndStrategy, ProposalStrategyKey(m), defaultStrategy(m))
	}
}

func fndProposal(t *testing.T, w *fndWorld, id string) *Proposal {
	t.Helper()
	p := &Proposal{}
	data, ok := w.state[fndGov][ProposalKey(id)]
	if !ok {
		t.Fatalf("proposal %s not found", id)
	}
	if err := json.Unmarshal(data, p); err != nil {
		t.Fatal(err)
	}
	return p
}

func fndRole(t *testing.T, w *fndWorld, id string) *Role {
	t.Helper()
	r := &Role{}
	if err := json.Unmarshal(w.state[fndRoleAddr][RoleKey(id)], r); err != nil {
		t.Fatal(err)
	}
	return r
}

// fndSubmit sends a proposal-creating transaction and returns the proposal id.
func fndSubmit(t *testing.T, w *fndWorld, from, addr, method string, args ...*pb.Arg) string {
	t.Helper()
	res := w.tx(from, addr, method, args...)
	if !res.Ok {
		t.Fatalf("%s: %s", method, res.Result)
	}
	gr := &governance.GovernanceResult{}
	if err := json.Unmarshal(res.Result, gr); err != nil {
		t.Fatal(err)
	}
	return gr.ProposalID
}

func fndVote(t *testing.T, w *fndWorld, voter, pid, ballot string) {
	t.Helper()
	res := w.tx(voter, fndGov, "Vote", pb.String(pid), pb.String(ballot), pb.String("r"))
	if !res.Ok {
		t.Fatalf("vote of %s on %s failed: %s", voter, pid, res.Result)
	}
}

// fndVoteUntilConcluded lets the voters cast the same ballot, in order, until the proposal is
// concluded (how many ballots that takes depends on the electorate count under test).
func fndVoteUntilConcluded(t *testing.T, w *fndWorld, pid, ballot string, voters ...string) {
	t.Helper()
	for _, v := range voters {
		if fndProposal(t, w, pid).Status != PROPOSED {
			return
		}
		fndVote(t, w, v, pid, ballot)
	}
}

// fndRealAvailable counts the electors of p that are available administrators NOW (the ones
// whose Vote transaction governance.Vote would accept, ballots already cast included).
func fndRealAvailable(t *testing.T, w *fndWorld, p *Proposal) uint64 {
	t.Helper()
	n := uint64(0)
	for _, e := range p.ElectorateList {
		if fndRole(t, w, e.ID).IsAvailable() {
			n++
		}
	}
	return n
}

// fndCheckElectorate checks the invariant on every open proposal; it reports, it does not stop.
func fndCheckElectorate(t *testing.T, w *fndWorld, when string, ids ...string) bool {
	t.Helper()
	ok := true
	for _, id := range ids {
		p := fndProposal(t, w, id)
		if p.Status != PROPOSED && p.Status != PAUSED {
			continue
		}
		real := fndRealAvailable(t, w, p)
		if p.AvailableElectorateNum != real {
			ok = false
			t.Errorf("C15 violated %s: proposal %s (%s) is evaluated against AvailableElectorateNum=%d but %d of its %d electors are available now",
				when, p.Id, p.EventType, p.AvailableElectorateNum, real, p.InitialElectorateNum)
		}
	}
	return ok
}

// openP lets A open proposal P: update of the appchain module's voting rule. Electors S A B C X,
// recorded rule "a > 0.5 * t" (3 approvals of 5), special (the super admin must vote).
func fndOpenP(t *testing.T, w *fndWorld) string {
	t.Helper()
	pid := fndSubmit(t, w, fndA, fndStrategy, "UpdateProposalStrategy", pb.String(repo.AppchainMgr), pb.String(string(SimpleMajority)), pb.String("a >= 0.75 * t"), pb.String("stricter"))
	p := fndProposal(t, w, pid)
	if p.Status != PROPOSED || p.InitialElectorateNum != 5 || p.AvailableElectorateNum != 5 || p.StrategyExpression != repo.DefaultSimpleMajorityExpression {
		t.Fatalf("unexpected proposal P: %+v", p)
	}
	return pid
}

// ---------------------------------------------------------------- tests

// 1. While the logout of X is pending X is `logouting`: governance.Vote refuses his ballots, so he
// is not an available elector of P (nor of his own logout proposal L), but both keep counting him.
func TestFindingC15LogoutPendingNotSubtracted(t *testing.T) {
	w := newFndWorld()
	fndGenesis(w)
	pid := fndOpenP(t, w)

	lid := fndSubmit(t, w, fndX, fndRoleAddr, "LogoutRole", pb.String(fndX), pb.String("bye"))
	if r := fndRole(t, w, fndX); r.Status != governance.GovernanceLogouting {
		t.Fatalf("X should be logouting, is %s", r.Status)
	}
	// X really is no elector any more: his vote is refused
	if res := w.tx(fndX, fndGov, "Vote", pb.String(pid), pb.String(BallotApprove), pb.String("r")); res.Ok {
		t.Fatalf("scenario broken: the vote of logouting X on P was accepted")
	}
	fndCheckElectorate(t, w, "after LogoutRole(X) was submitted", pid, lid)
}

// 2. The logout of X is rejected: X is available again, and P now counts 6 available electors
// out of an electorate of 5.
func TestFindingC15RejectedLogoutAddsAnElector(t *testing.T) {
	w := newFndWorld()
	fndGenesis(w)
	pid := fndOpenP(t, w)

	lid := fndSubmit(t, w, fndX, fndRoleAddr, "LogoutRole", pb.String(fndX), pb.String("bye"))
	fndVoteUntilConcluded(t, w, lid, BallotReject, fndS, fndA, fndB)
	if l := fndProposal(t, w, lid); l.Status != REJECTED {
		t.Fatalf("logout proposal not rejected: status=%s approve=%d against=%d available=%d", l.Status, l.ApproveNum, l.AgainstNum, l.AvailableElectorateNum)
	}
	if r := fndRole(t, w, fndX); r.Status != governance.GovernanceAvailable {
		t.Fatalf("X should be available again, is %s", r.Status)
	}
	p := fndProposal(t, w, pid)
	if p.AvailableElectorateNum > p.InitialElectorateNum {
		t.Errorf("C15 violated: P counts %d available electors, its whole electorate has %d members", p.AvailableElectorateNum, p.InitialElectorateNum)
	}
	fndCheckElectorate(t, w, "after the logout of X was rejected", pid)
}

// 3. The logout of X is approved (S A B). P still counts 5 electors although only S A B C are
// left. S approves P, A and B reject it, C approves it: every elector that can still vote has
// voted, P has 2 approvals and needs 3 - approval is unreachable - but the tally computes
// 5 - 2 = 3 reachable approvals and keeps P open for ever; the governed voting rule stays
// locked in `updating`.
func TestFindingC15ApprovedLogoutLeavesProposalUndecidable(t *testing.T) {
	w := newFndWorld()
	fndGenesis(w)
	pid := fndOpenP(t, w)

	lid := fndSubmit(t, w, fndX, fndRoleAddr, "LogoutRole", pb.String(fndX), pb.String("bye"))
	for _, v := range []string{fndS, fndA, fndB} {
		fndVote(t, w, v, lid, BallotApprove)
	}
	if l := fndProposal(t, w, lid); l.Status != APPROVED {
		t.Fatalf("logout proposal not approved: %+v", l)
	}
	if r := fndRole(t, w, fndX); r.Status != governance.GovernanceForbidden {
		t.Fatalf("X not logged out: %s", r.Status)
	}
	fndCheckElectorate(t, w, "after the logout of X was approved", pid)

	fndVote(t, w, fndS, pid, BallotApprove)
	fndVote(t, w, fndA, pid, BallotReject)
	if p := fndProposal(t, w, pid); p.Status != PROPOSED {
		t.Fatalf("P must still be open after one approval and one rejection (S+B+C can approve): %s %q", p.Status, p.EndReason)
	}
	fndVote(t, w, fndB, pid, BallotReject)

	// electors of P that are available and have not voted: only C. 1 + 1 = 2 approvals < 3.
	p := fndProposal(t, w, pid)
	if p.Status == PROPOSED {
		canStillApprove := uint64(0)
		for _, e := range p.ElectorateList {
			if _, voted := p.BallotMap[e.ID]; !voted && fndRole(t, w, e.ID).IsAvailable() {
				canStillApprove++
			}
		}
		_, pass, err := repo.MakeStrategyDecision(p.StrategyExpression, p.ApproveNum+canStillApprove, p.AgainstNum, p.InitialElectorateNum, p.InitialElectorateNum)
		if err != nil {
			t.Fatal(err)
		}
		if pass {
			t.Fatalf("scenario broken: approval still reachable")
		}
		t.Errorf("C15 violated: after B's rejection P has %d approval(s), %d rejection(s) and %d elector(s) left to vote; %q with t=%d is unreachable, but P stays %s because the tally uses AvailableElectorateNum=%d",
			p.ApproveNum, p.AgainstNum, canStillApprove, p.StrategyExpression, p.InitialElectorateNum, p.Status, p.AvailableElectorateNum)

		// the last elector votes: nobody is left, P is still open
		fndVote(t, w, fndC, pid, BallotApprove)
		p = fndProposal(t, w, pid)
		ps := &ProposalStrategy{}
		if err := json.Unmarshal(w.state[fndStrategy][ProposalStrategyKey(repo.AppchainMgr)], ps); err != nil {
			t.Fatal(err)
		}
		if p.Status == PROPOSED {
			t.Errorf("C15 violated: all available electors of P (S A B C) have voted (approve=%d against=%d), P is still %s and can never be concluded by a vote; the governed rule of %s stays %q",
				p.ApproveNum, p.AgainstNum, p.Status, repo.AppchainMgr, ps.Status)
		}
		return
	}
	// correct behaviour: B's rejection made approval unreachable, P is rejected by the tally and
	// the governed rule is released unchanged
	if p.Status != REJECTED || p.EndReason != NormalReason {
		t.Fatalf("P should be rejected by the tally, is %s (%q)", p.Status, p.EndReason)
	}
	ps := &ProposalStrategy{}
	if err := json.Unmarshal(w.state[fndStrategy][ProposalStrategyKey(repo.AppchainMgr)], ps); err != nil {
		t.Fatal(err)
	}
	if ps.Status != governance.GovernanceAvailable || ps.Extra != repo.DefaultSimpleMajorityExpression {
		t.Fatalf("governed rule not released unchanged: %+v", ps)
	}
}

// 4. Logout requested while a freeze of X is pending (X `freezing`, still a voting elector), then
// rejected: the freeze proposal is restored and Manage is called with proposalResult "freeze",
// not "reject". X is `freezing` (available) again, so the counter must be back to 5 - neither 6
// nor a permanent 4.
func TestFindingC15LogoutFromFreezingRejected(t *testing.T) {
	w := newFndWorld()
	fndGenesis(w)
	pid := fndOpenP(t, w)

	fid := fndSubmit(t, w, fndA, fndRoleAddr, "FreezeRole", pb.String(fndX), pb.String("f"))
	if r := fndRole(t, w, fndX); r.Status != governance.GovernanceFreezing {
		t.Fatalf("X should be freezing, is %s", r.Status)
	}
	fndCheckElectorate(t, w, "after FreezeRole(X) was submitted", pid, fid)

	lid := fndSubmit(t, w, fndX, fndRoleAddr, "LogoutRole", pb.String(fndX), pb.String("bye"))
	if f := fndProposal(t, w, fid); f.Status != PAUSED {
		t.Fatalf("freeze proposal should be paused, is %s", f.Status)
	}
	fndCheckElectorate(t, w, "after LogoutRole(X) was submitted from freezing", pid, fid, lid)

	fndVoteUntilConcluded(t, w, lid, BallotReject, fndS, fndA, fndB)
	if l := fndProposal(t, w, lid); l.Status != REJECTED {
		t.Fatalf("logout proposal not rejected: %+v", l)
	}
	if r := fndRole(t, w, fndX); r.Status != governance.GovernanceFreezing {
		t.Fatalf("X should be freezing again, is %s", r.Status)
	}
	if f := fndProposal(t, w, fid); f.Status != PROPOSED {
		t.Fatalf("freeze proposal should be restored, is %s", f.Status)
	}
	fndCheckElectorate(t, w, "after the logout of freezing X was rejected", pid, fid)
}

// 5. Control (passes before and after the repair): the logout of a frozen admin (not an elector
// at that time) must not touch the counters, whether it is approved or rejected.
func TestFindingC15LogoutOfFrozenAdminLeavesCounters(t *testing.T) {
	for _, ballot := range []string{BallotApprove, BallotReject} {
		w := newFndWorld()
		fndGenesis(w)
		fid := fndSubmit(t, w, fndA, fndRoleAddr, "FreezeRole", pb.String(fndX), pb.String("f"))
		for _, v := range []string{fndS, fndA, fndB} {
			fndVote(t, w, v, fid, BallotApprove)
		}
		if r := fndRole(t, w, fndX); r.Status != governance.GovernanceFrozen {
			t.Fatalf("X should be frozen, is %s", r.Status)
		}
		// P is opened by the four remaining admins: t=4
		pid := fndSubmit(t, w, fndA, fndStrategy, "UpdateProposalStrategy", pb.String(repo.AppchainMgr), pb.String(string(SimpleMajority)), pb.String("a >= 0.75 * t"), pb.String("stricter"))
		lid := fndSubmit(t, w, fndX, fndRoleAddr, "LogoutRole", pb.String(fndX), pb.String("bye"))
		fndCheckElectorate(t, w, "after LogoutRole(frozen X) was submitted", pid, lid)
		fndVoteUntilConcluded(t, w, lid, ballot, fndS, fndA, fndB)
		if l := fndProposal(t, w, lid); l.Status == PROPOSED {
			t.Fatalf("logout proposal not concluded: %+v", l)
		}
		fndCheckElectorate(t, w, "after the logout of frozen X was concluded ("+ballot+")", pid)
		if p := fndProposal(t, w, pid); p.AvailableElectorateNum != 4 {
			t.Errorf("P.available=%d, want 4", p.AvailableElectorateNum)
		}
	}
}
