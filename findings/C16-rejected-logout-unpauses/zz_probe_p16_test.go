package boltvm

// Demonstration for seeded defect P16.
//
// Place this file at pkg/vm/boltvm/zz_seed_p16_test.go and run
//
//   go test -ldflags=-checklinkname=0 -vet=off -count=1 -run TestSeedP16 ./pkg/vm/boltvm/
//
// The test drives the REAL bolt contracts (appchain manager, service manager, rule manager,
// role manager, governance, proposal strategy, transaction manager, interchain manager)
// through the REAL BoltVM / BoltStubImpl on a REAL (leveldb backed) ledger. Nothing is mocked.
// Only the executor's bookkeeping of the service cache (Event_SERVICE of a successful
// transaction -> cache entry) is replayed by the small helper `run`.

import (
	"encoding/json"
	"fmt"
	"io/ioutil"
	"path/filepath"
	"sync"
	"testing"

	"github.com/meshplus/bitxhub-core/agency"
	appchainMgr "github.com/meshplus/bitxhub-core/appchain-mgr"
	"github.com/meshplus/bitxhub-core/governance"
	servicemgr "github.com/meshplus/bitxhub-core/service-mgr"
	"github.com/meshplus/bitxhub-core/validator"
	"github.com/meshplus/bitxhub-kit/log"
	"github.com/meshplus/bitxhub-kit/storage/blockfile"
	"github.com/meshplus/bitxhub-kit/storage/leveldb"
	"github.com/meshplus/bitxhub-kit/types"
	"github.com/meshplus/bitxhub-model/constant"
	"github.com/meshplus/bitxhub-model/pb"
	"github.com/meshplus/bitxhub/internal/executor/contracts"
	"github.com/meshplus/bitxhub/internal/ledger"
	"github.com/meshplus/bitxhub/internal/repo"
	"github.com/meshplus/bitxhub/pkg/vm"
	"github.com/stretchr/testify/assert"
	"github.com/stretchr/testify/require"
)

const (
	p16BxhID  = "1356"
	p16ChainA = "chainA"
	p16ChainB = "chainB"
	p16SvcA   = "svcA"
	p16SvcB   = "svcB"
)

var (
	p16GovAdmin = types.NewAddressByStr("0xc7F999b83Af6DF9e67d0a37Ee7e900bF38b3D013").String()
	p16AdminA   = types.NewAddressByStr("0x79a1215469FaB6f9c63c1816b45183AD3624bE34").String()
	p16AdminB   = types.NewAddressByStr("0x97c8B516D19edBf575D72a172Af7F418BE498C37").String()
)

type p16World struct {
	t      *testing.T
	ldg    *ledger.Ledger
	cons   map[string]agency.Contract
	cache  *sync.Map // what the executor keeps for the interchain contract
	nonce  uint64
	height uint64
}

func p16Contracts() map[string]agency.Contract {
	return Register([]*BoltContract{
		{Enabled: true, Name: "interchain", Address: constant.InterchainContractAddr.Address().String(), Contract: &contracts.InterchainManager{}},
		{Enabled: true, Name: "rule", Address: constant.RuleManagerContractAddr.Address().String(), Contract: &contracts.RuleManager{}},
		{Enabled: true, Name: "role", Address: constant.RoleContractAddr.Address().String(), Contract: &contracts.RoleManager{}},
		{Enabled: true, Name: "appchain", Address: constant.AppchainMgrContractAddr.Address().String(), Contract: &contracts.AppchainManager{}},
		{Enabled: true, Name: "transaction", Address: constant.TransactionMgrContractAddr.Address().String(), Contract: &contracts.TransactionManager{}},
		{Enabled: true, Name: "governance", Address: constant.GovernanceContractAddr.Address().String(), Contract: &contracts.Governance{}},
		{Enabled: true, Name: "node", Address: constant.NodeManagerContractAddr.Address().String(), Contract: &contracts.NodeManager{}},
		{Enabled: true, Name: "broker", Address: constant.InterBrokerContractAddr.Address().String(), Contract: &contracts.InterBroker{}},
		{Enabled: true, Name: "service", Address: constant.ServiceMgrContractAddr.Address().String(), Contract: &contracts.ServiceManager{}},
		{Enabled: true, Name: "dapp", Address: constant.DappMgrContractAddr.Address().String(), Contract: &contracts.DappManager{}},
		{Enabled: true, Name: "strategy", Address: constant.ProposalStrategyMgrContractAddr.Address().String(), Contract: &contracts.GovStrategy{}},
	})
}

func newP16World(t *testing.T) *p16World {
	repoRoot, err := ioutil.TempDir("", "seed-p16")
	require.Nil(t, err)
	blockStorage, err := leveldb.New(filepath.Join(repoRoot, "storage"))
	require.Nil(t, err)
	ldb, err := leveldb.New(filepath.Join(repoRoot, "ledger"))
	require.Nil(t, err)
	accountCache, err := ledger.NewAccountCache()
	require.Nil(t, err)
	blockFile, err := blockfile.NewBlockFile(repoRoot, log.NewWithModule("seed"))
	require.Nil(t, err)
	rep := &repo.Repo{Config: &repo.Config{}}
	rep.Config.Executor.Type = "serial"
	ldg, err := ledger.New(rep, blockStorage, ldb, blockFile, accountCache, log.NewWithModule("ledger"))
	require.Nil(t, err)

	// the part of the genesis block the scenario needs: one (super) governance admin and the hub id
	admin := &contracts.Role{ID: p16GovAdmin, RoleType: contracts.GovernanceAdmin, Weight: repo.SuperAdminWeight, Status: governance.GovernanceAvailable}
	adminData, err := json.Marshal(admin)
	require.Nil(t, err)
	ldg.SetState(constant.RoleContractAddr.Address(), []byte(contracts.RoleKey(admin.ID)), adminData, nil)
	idMapData, err := json.Marshal(map[string]struct{}{p16GovAdmin: {}})
	require.Nil(t, err)
	ldg.SetState(constant.RoleContractAddr.Address(), []byte(contracts.RoleTypeKey(string(contracts.GovernanceAdmin))), idMapData, nil)
	ldg.SetState(constant.InterchainContractAddr.Address(), []byte(contracts.BitXHubID), []byte(p16BxhID), nil)

	return &p16World{t: t, ldg: ldg, cons: p16Contracts(), cache: &sync.Map{}, height: 2}
}

func (w *p16World) newTx(from string, to *types.Address) *pb.BxhTransaction {
	w.nonce++
	tx := &pb.BxhTransaction{
		From:      types.NewAddressByStr(from),
		To:        to,
		Nonce:     w.nonce,
		Timestamp: int64(1000 + w.nonce),
	}
	tx.TransactionHash = tx.Hash()
	return tx
}

// applyServiceEvents does what the executor does after a successful transaction:
// the service records announced by the service manager replace the cached ones.
func (w *p16World) applyServiceEvents(tx *pb.BxhTransaction) {
	for _, ev := range w.ldg.Events(tx.GetHash().String()) {
		if ev.EventType != pb.Event_SERVICE {
			continue
		}
		info := &servicemgr.Service{}
		require.Nil(w.t, json.Unmarshal(ev.Data, &info))
		w.cache.Store(fmt.Sprintf("%s:%s", info.ChainID, info.ServiceID), info)
	}
}

// invoke runs one bolt-contract transaction; it must succeed.
func (w *p16World) invoke(from string, contract constant.BoltContractAddress, method string, args ...*pb.Arg) []byte {
	ret, err := w.tryInvoke(from, contract, method, args...)
	require.Nil(w.t, err, "%s.%s", contract, method)
	return ret
}

func (w *p16World) tryInvoke(from string, contract constant.BoltContractAddress, method string, args ...*pb.Arg) ([]byte, error) {
	tx := w.newTx(from, contract.Address())
	payload, err := (&pb.InvokePayload{Method: method, Args: args}).Marshal()
	require.Nil(w.t, err)
	ctx := vm.NewContext(tx, w.nonce, nil, w.height, w.ldg, log.NewWithModule("seed"), false, nil)
	ret, _, err := New(ctx, nil, nil, w.cons).Run(payload, 0)
	if err == nil {
		w.applyServiceEvents(tx)
	}
	return ret, err
}

// handleIBTP submits an IBTP like the executor does, with the given service cache.
func (w *p16World) handleIBTP(from string, ibtp *pb.IBTP, cache *sync.Map) ([]byte, error) {
	tx := w.newTx(from, constant.InterchainContractAddr.Address())
	tx.IBTP = ibtp
	tx.TransactionHash = tx.Hash()
	ctx := vm.NewContext(tx, w.nonce, nil, w.height, w.ldg, log.NewWithModule("seed"), false, nil)
	ret, err := New(ctx, nil, nil, w.cons).HandleIBTP(ibtp, cache)
	if err == nil {
		w.applyServiceEvents(tx)
	}
	return ret, err
}

func (w *p16World) proposalID(ret []byte) string {
	gr := &governance.GovernanceResult{}
	require.Nil(w.t, json.Unmarshal(ret, gr))
	require.NotEqual(w.t, "", gr.ProposalID)
	return gr.ProposalID
}

func (w *p16World) approve(proposalID string) {
	w.invoke(p16GovAdmin, constant.GovernanceContractAddr, "Vote", pb.String(proposalID), pb.String(contracts.BallotApprove), pb.String("ok"))
}

func (w *p16World) appchainStatus(id string) governance.GovernanceStatus {
	ret := w.invoke(p16GovAdmin, constant.AppchainMgrContractAddr, "GetAppchain", pb.String(id))
	chain := &appchainMgr.Appchain{}
	require.Nil(w.t, json.Unmarshal(ret, chain))
	return chain.Status
}

func (w *p16World) serviceStatus(id string) governance.GovernanceStatus {
	ret := w.invoke(p16GovAdmin, constant.ServiceMgrContractAddr, "GetServiceInfo", pb.String(id))
	svc := &servicemgr.Service{}
	require.Nil(w.t, json.Unmarshal(ret, svc))
	return svc.Status
}

func (w *p16World) registerChainWithService(admin, chainID, serviceID string) {
	broker, err := json.Marshal(&appchainMgr.FabricBroker{ChannelID: "ch", ChaincodeID: "cc", BrokerVersion: "1"})
	require.Nil(w.t, err)
	ret := w.invoke(admin, constant.AppchainMgrContractAddr, "RegisterAppchain",
		pb.String(chainID), pb.String("name-"+chainID), pb.Bytes([]byte("pubkey")), pb.String(appchainMgr.ChainTypeFabric1_4_3),
		pb.Bytes([]byte("trustroot")), pb.String(string(broker)), pb.String("desc"),
		pb.String(validator.FabricRuleAddr), pb.String(""), pb.String(admin), pb.String("reason"))
	w.approve(w.proposalID(ret))
	require.Equal(w.t, governance.GovernanceAvailable, w.appchainStatus(chainID))

	ret = w.invoke(admin, constant.ServiceMgrContractAddr, "RegisterService",
		pb.String(chainID), pb.String(serviceID), pb.String("name-"+serviceID), pb.String(string(servicemgr.ServiceCallContract)),
		pb.String("intro"), pb.Uint64(1), pb.String(""), pb.String("details"), pb.String("reason"))
	w.approve(w.proposalID(ret))
	require.Equal(w.t, governance.GovernanceAvailable, w.serviceStatus(chainID+":"+serviceID))
}

func p16FullID(chain, svc string) string { return fmt.Sprintf("%s:%s:%s", p16BxhID, chain, svc) }

func p16Request(from, to string, index uint64) *pb.IBTP {
	return &pb.IBTP{From: from, To: to, Index: index, Type: pb.IBTP_INTERCHAIN, TimeoutHeight: 10}
}

func TestProbeRejectedLogoutOfFrozenAppchain(t *testing.T) {
	w := newP16World(t)
	w.registerChainWithService(p16AdminA, p16ChainA, p16SvcA)
	w.registerChainWithService(p16AdminB, p16ChainB, p16SvcB)
	a, b := p16FullID(p16ChainA, p16SvcA), p16FullID(p16ChainB, p16SvcB)

	// 1. governance freezes appchain A: the freeze proposal is approved
	ret := w.invoke(p16GovAdmin, constant.AppchainMgrContractAddr, "FreezeAppchain", pb.String(p16ChainA), pb.String("misbehaved"))
	w.approve(w.proposalID(ret))
	require.Equal(t, governance.GovernanceFrozen, w.appchainStatus(p16ChainA))
	require.Equal(t, governance.GovernancePause, w.serviceStatus(p16ChainA+":"+p16SvcA))

	// 2. the admin of the frozen appchain asks to log it out; governance REJECTS the logout
	ret = w.invoke(p16AdminA, constant.AppchainMgrContractAddr, "LogoutAppchain", pb.String(p16ChainA), pb.String("bye"))
	w.invoke(p16GovAdmin, constant.GovernanceContractAddr, "Vote", pb.String(w.proposalID(ret)), pb.String(contracts.BallotReject), pb.String("no"))

	// the appchain is back to frozen ...
	require.Equal(t, governance.GovernanceFrozen, w.appchainStatus(p16ChainA))
	// ... so its services must still be unusable
	status := w.serviceStatus(p16ChainA + ":" + p16SvcA)
	assert.False(t, (&servicemgr.Service{Status: status}).IsAvailable(), "appchain %s is frozen but its service is %q after a rejected logout", p16ChainA, status)
	_, err := w.handleIBTP(p16AdminA, p16Request(a, b, 1), w.cache)
	assert.NotNil(t, err, "service of the frozen appchain was accepted as source")
}

func TestProbeRejectedLogoutOfAvailableAppchainResumesServices(t *testing.T) {
	w := newP16World(t)
	w.registerChainWithService(p16AdminA, p16ChainA, p16SvcA)
	ret := w.invoke(p16AdminA, constant.AppchainMgrContractAddr, "LogoutAppchain", pb.String(p16ChainA), pb.String("bye"))
	require.Equal(t, governance.GovernancePause, w.serviceStatus(p16ChainA+":"+p16SvcA))
	w.invoke(p16GovAdmin, constant.GovernanceContractAddr, "Vote", pb.String(w.proposalID(ret)), pb.String(contracts.BallotReject), pb.String("no"))
	require.Equal(t, governance.GovernanceAvailable, w.appchainStatus(p16ChainA))
	require.Equal(t, governance.GovernanceAvailable, w.serviceStatus(p16ChainA+":"+p16SvcA))
}
