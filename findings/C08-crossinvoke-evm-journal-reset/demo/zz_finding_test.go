package executor

import (
	"encoding/json"
	"io/ioutil"
	"math/big"
	"path/filepath"
	"strings"
	"testing"

	"github.com/ethereum/go-ethereum/accounts/abi"
	"github.com/ethereum/go-ethereum/common"
	"github.com/ethereum/go-ethereum/core/rawdb"
	etypes "github.com/ethereum/go-ethereum/core/types"
	"github.com/meshplus/bitxhub-core/agency"
	"github.com/meshplus/bitxhub-core/boltvm"
	ec "github.com/meshplus/bitxhub-core/eth-contracts/escrows-contracts"
	"github.com/meshplus/bitxhub-kit/log"
	"github.com/meshplus/bitxhub-kit/storage/blockfile"
	"github.com/meshplus/bitxhub-kit/storage/leveldb"
	"github.com/meshplus/bitxhub-kit/types"
	"github.com/meshplus/bitxhub-model/constant"
	"github.com/meshplus/bitxhub-model/pb"
	"github.com/meshplus/bitxhub/internal/executor/contracts"
	"github.com/meshplus/bitxhub/internal/executor/oracle/appchain"
	"github.com/meshplus/bitxhub/internal/ledger"
	"github.com/stretchr/testify/require"
)

// Finding (properties C08 / C07): BoltStubImpl.CrossInvokeEVM resets the undo journal and the
// snapshot ids of the ledger (Finalise(false) on success, ClearChangerAndRefund() on an
// ApplyMessage error) in the MIDDLE of a BVM transaction. The snapshots taken by
// applyTransaction (id 0) and applyBxhTransaction (id 1) are gone, so the first revert after
// the call panics in RevertToSnapshot ("revision id N cannod be reverted") outside every
// recover: the executor goroutine - in a node the whole process, on every replica - dies, the
// transaction gets no receipt and the block is never committed.
//
// Production path (sub-tests "production ..."): repo config `[appchain] enable = true` registers
// the built-in contract EthHeaderManager (internal/executor/contracts/asset_manager.go). An
// ordinary signed BVM transaction
//     to = constant.EthHeaderMgrContractAddr, method = "Mint", args = (receipt JSON, bytes)
// is executed by applyTransaction -> applyBxhTransaction -> boltvm.New(ctx, ve, exec.evm, ...)
// -> BoltVM.Run -> EthHeaderManager.Mint -> Stub.CrossInvokeEVM(interchainSwapAddr, "mint"(...))
// with the executor's EVM. The EVM call succeeds -> Finalise(false). The sender cannot pay
// GasBVMTx * gasPrice -> payGasFee fails -> revert() -> RevertToSnapshot(0) -> panic.
// (Nothing at admission checks the balance; the expected outcome is a FAILED receipt
// "insufficient balance", exactly what every other BVM transaction of such a sender gets.)
//
// The sub-tests "registry contract ..." use a four-line contract registered through
// agency.RegisterContractConstructor (NOT a production contract; the registry is the extension
// point production uses for plug-in contracts). They cover the two shapes that no built-in
// contract has today: a contract error after a successful EVM call, and the ApplyMessage-error
// branch (ClearChangerAndRefund) followed by a contract error.

const zzFindingGasPrice = 5000000

var (
	zzFindingContractAddr = types.NewAddressByStr("0x00000000000000000000000000000000000f1d13")
	zzFindingSwapAddr     = "0x30c5D3aeb4681af4D13384DBc2a717C51cb1cc11" // the "interchain swap" EVM contract of the hub
	zzFindingEmptyAddr    = "0x40c5D3aeb4681af4D13384DBc2a717C51cb1cc22" // an account of the hub without code
	// stand-in for the deployed InterchainSwap contract: SSTORE(0, 1); return uint256(1)
	//   PUSH1 1 PUSH1 0 SSTORE  PUSH1 1 PUSH1 0 MSTORE  PUSH1 0x20 PUSH1 0 RETURN
	zzFindingSwapCode   = common.FromHex("0x6001600055600160005260206000f3")
	zzFindingEscrowAddr = "0x3cd213723e81326c4783459f0cdf356833a4cf93"
	zzFindingEthTxHash  = common.HexToHash("0x1111111111111111111111111111111111111111111111111111111111111111")
)

// zzFindingContract: a plug-in BVM contract that writes, calls the hub's EVM and then fails.
type zzFindingContract struct {
	boltvm.Stub
}

// SetCallFail writes a key, calls an EVM account (the call succeeds) and returns a contract error.
func (c *zzFindingContract) SetCallFail(key string, addr string) *boltvm.Response {
	c.Set(key, []byte("written before the EVM call"))
	res := c.CrossInvokeEVM(addr, nil)
	if !res.Ok {
		return boltvm.Error(boltvm.OtherInternalErrCode, "evm call failed: "+string(res.Result))
	}
	return boltvm.Error(boltvm.OtherInternalErrCode, "contract error after the EVM call")
}

// SetCallTooBigFail writes a key, makes an EVM call whose calldata needs more than the fixed
// 1,000,000 gas as intrinsic gas (ApplyMessage returns an error) and returns that error.
func (c *zzFindingContract) SetCallTooBigFail(key string, addr string) *boltvm.Response {
	c.Set(key, []byte("written before the EVM call"))
	data := make([]byte, 70000)
	for i := range data {
		data[i] = 0xff
	}
	res := c.CrossInvokeEVM(addr, data)
	if !res.Ok {
		return boltvm.Error(boltvm.OtherInternalErrCode, "evm call failed: "+string(res.Result))
	}
	return boltvm.Success(nil)
}

func init() {
	agency.RegisterContractConstructor("zz finding demo contract", zzFindingContractAddr, func() agency.Contract {
		return &zzFindingContract{}
	})
}

func TestFindingCrossInvokeEVMKeepsTheTransactionRevertible(t *testing.T) {
	fee := new(big.Int).Mul(big.NewInt(GasBVMTx), big.NewInt(zzFindingGasPrice))
	rich := new(big.Int).Mul(fee, big.NewInt(10))
	poor := big.NewInt(1000)

	mintArgs := func(t *testing.T) []*pb.Arg {
		return []*pb.Arg{pb.Bytes(zzFindingLockReceipt(t)), pb.Bytes([]byte("proof"))}
	}
	ethTxKey := contracts.EthTxKey(zzFindingEthTxHash.String())

	t.Run("production Mint, funded sender", func(t *testing.T) {
		receipt, ldg := zzFindingExecute(t, rich, constant.EthHeaderMgrContractAddr.Address(), "Mint", mintArgs(t)...)
		require.Equal(t, pb.Receipt_SUCCESS, receipt.Status, string(receipt.Ret))
		ok, _ := ldg.GetState(constant.EthHeaderMgrContractAddr.Address(), []byte(ethTxKey))
		require.True(t, ok, "a successful Mint records the ethereum tx hash")
		ok, v := ldg.GetState(types.NewAddressByStr(zzFindingSwapAddr), common.Hash{}.Bytes())
		require.True(t, ok, "a successful Mint keeps what the EVM contract stored")
		require.Equal(t, common.BigToHash(big.NewInt(1)), common.BytesToHash(v))
	})

	t.Run("production Mint, sender cannot pay the fee", func(t *testing.T) {
		receipt, ldg := zzFindingExecute(t, poor, constant.EthHeaderMgrContractAddr.Address(), "Mint", mintArgs(t)...)
		require.Equal(t, pb.Receipt_FAILED, receipt.Status)
		require.Contains(t, string(receipt.Ret), "insufficient balance")
		ok, _ := ldg.GetState(constant.EthHeaderMgrContractAddr.Address(), []byte(ethTxKey))
		require.False(t, ok, "a FAILED transaction keeps no effect (C07): the mint record must be reverted")
		ok, _ = ldg.GetState(types.NewAddressByStr(zzFindingSwapAddr), common.Hash{}.Bytes())
		require.False(t, ok, "a FAILED transaction keeps no effect (C07): the EVM storage write must be reverted")
	})

	t.Run("production Mint, sender cannot pay the fee, ethdb-backed (complex) state ledger", func(t *testing.T) {
		receipt, ldg := zzFindingExecuteOn(t, true, poor, constant.EthHeaderMgrContractAddr.Address(), "Mint", mintArgs(t)...)
		require.Equal(t, pb.Receipt_FAILED, receipt.Status)
		require.Contains(t, string(receipt.Ret), "insufficient balance")
		ok, _ := ldg.GetState(constant.EthHeaderMgrContractAddr.Address(), []byte(ethTxKey))
		require.False(t, ok, "a FAILED transaction keeps no effect (C07): the mint record must be reverted")
		ok, _ = ldg.GetState(types.NewAddressByStr(zzFindingSwapAddr), common.Hash{}.Bytes())
		require.False(t, ok, "a FAILED transaction keeps no effect (C07): the EVM storage write must be reverted")
	})

	t.Run("production Mint, funded sender, ethdb-backed (complex) state ledger", func(t *testing.T) {
		receipt, ldg := zzFindingExecuteOn(t, true, rich, constant.EthHeaderMgrContractAddr.Address(), "Mint", mintArgs(t)...)
		require.Equal(t, pb.Receipt_SUCCESS, receipt.Status, string(receipt.Ret))
		ok, _ := ldg.GetState(constant.EthHeaderMgrContractAddr.Address(), []byte(ethTxKey))
		require.True(t, ok, "a successful Mint records the ethereum tx hash")
		ok, v := ldg.GetState(types.NewAddressByStr(zzFindingSwapAddr), common.Hash{}.Bytes())
		require.True(t, ok, "a successful Mint keeps what the EVM contract stored")
		require.Equal(t, common.BigToHash(big.NewInt(1)), common.BytesToHash(v))
	})

	t.Run("registry contract, contract error after a successful EVM call", func(t *testing.T) {
		receipt, ldg := zzFindingExecute(t, rich, zzFindingContractAddr, "SetCallFail", pb.String("k"), pb.String(zzFindingEmptyAddr))
		require.Equal(t, pb.Receipt_FAILED, receipt.Status)
		require.Contains(t, string(receipt.Ret), "contract error after the EVM call")
		ok, _ := ldg.GetState(zzFindingContractAddr, []byte("k"))
		require.False(t, ok, "the write made before the EVM call must be reverted")
	})

	t.Run("registry contract, ApplyMessage error then contract error", func(t *testing.T) {
		receipt, ldg := zzFindingExecute(t, rich, zzFindingContractAddr, "SetCallTooBigFail", pb.String("k"), pb.String(zzFindingEmptyAddr))
		require.Equal(t, pb.Receipt_FAILED, receipt.Status)
		require.Contains(t, string(receipt.Ret), "intrinsic gas too low")
		ok, _ := ldg.GetState(zzFindingContractAddr, []byte("k"))
		require.False(t, ok, "the write made before the EVM call must be reverted")
	})
}

// zzFindingLockReceipt builds the JSON of an ethereum receipt that holds one Escrows.Lock event
// emitted by the escrows contract registered for the sender (what a pier submits to Mint).
func zzFindingLockReceipt(t *testing.T) []byte {
	escrowsAbi, err := abi.JSON(strings.NewReader(ec.EscrowsABI))
	require.Nil(t, err)
	lock := escrowsAbi.Events["Lock"]
	data, err := lock.Inputs.Pack(
		common.HexToAddress("0x00000000000000000000000000000000000000e1"), // ethToken
		common.HexToAddress("0x00000000000000000000000000000000000000e2"), // relayToken
		common.HexToAddress("0x00000000000000000000000000000000000000e3"), // locker
		"0x00000000000000000000000000000000000000e4",                      // recipient
		big.NewInt(100), // amount
		big.NewInt(1),   // appchainIndex
	)
	require.Nil(t, err)
	receipt := &etypes.Receipt{
		Status:            etypes.ReceiptStatusSuccessful,
		CumulativeGasUsed: 21000,
		GasUsed:           21000,
		TxHash:            zzFindingEthTxHash,
		Logs: []*etypes.Log{{
			Address: common.HexToAddress(zzFindingEscrowAddr),
			Topics:  []common.Hash{lock.ID},
			Data:    data,
			TxHash:  zzFindingEthTxHash,
		}},
	}
	receiptData, err := receipt.MarshalJSON()
	require.Nil(t, err)
	return receiptData
}

// zzFindingExecute executes block 2 holding ONE signed BVM transaction (to.method(args...)) on a
// real ledger with the real executor (appchain support enabled in the repo config) and returns
// the receipt stored for it.
func zzFindingExecute(t *testing.T, senderBalance *big.Int, to *types.Address, method string, args ...*pb.Arg) (*pb.Receipt, *ledger.Ledger) {
	return zzFindingExecuteOn(t, false, senderBalance, to, method, args...)
}

// complexLedger selects the ethdb-backed state ledger (bitxhub.toml: [ledger] type = "complex").
func zzFindingExecuteOn(t *testing.T, complexLedger bool, senderBalance *big.Int, to *types.Address, method string, args ...*pb.Arg) (*pb.Receipt, *ledger.Ledger) {
	config := generateMockConfig(t)
	config.Appchain.Enable = true // bitxhub.toml: [appchain] enable = true

	repoRoot, err := ioutil.TempDir("", "executor-finding-t13")
	require.Nil(t, err)
	blockchainStorage, err := leveldb.New(filepath.Join(repoRoot, "storage"))
	require.Nil(t, err)
	var ldb interface{}
	if complexLedger {
		ldb, err = rawdb.NewLevelDBDatabase(filepath.Join(repoRoot, "ledger"), 0, 0, "", false)
	} else {
		ldb, err = leveldb.New(filepath.Join(repoRoot, "ledger"))
	}
	require.Nil(t, err)
	accountCache, err := ledger.NewAccountCache()
	require.Nil(t, err)
	blockFile, err := blockfile.NewBlockFile(repoRoot, log.NewWithModule("executor_test"))
	require.Nil(t, err)
	ldg, err := ledger.New(createMockRepo(t), blockchainStorage, ldb, blockFile, accountCache, log.NewWithModule("ledger"))
	require.Nil(t, err)

	privKey, sender := loadAdminKey(t)

	// ---- state of block 1: balance of the sender, and what EthHeaderManager.SetEscrowAddr(sender, escrow)
	// ---- and EthHeaderManager.SetInterchainSwapAddr(swap) wrote in earlier blocks
	ldg.SetBalance(sender, senderBalance)
	escrowData, err := json.Marshal(&contracts.ContractAddr{Addr: zzFindingEscrowAddr})
	require.Nil(t, err)
	ldg.SetState(constant.EthHeaderMgrContractAddr.Address(), []byte(contracts.EscrowsAddrKey+sender.String()), escrowData, nil)
	swapData, err := json.Marshal(&contracts.ContractAddr{Addr: zzFindingSwapAddr})
	require.Nil(t, err)
	ldg.SetState(constant.EthHeaderMgrContractAddr.Address(), []byte(contracts.InterchainSwapAddrKey), swapData, nil)

	ldg.SetCode(types.NewAddressByStr(zzFindingSwapAddr), zzFindingSwapCode)
	// genesis gives every bolt contract account nonce 1 ("avoid being deleted by complex state ledger")
	ldg.SetNonce(constant.EthHeaderMgrContractAddr.Address(), 1)
	ldg.SetNonce(zzFindingContractAddr, 1)

	account, journal := ldg.FlushDirtyData()
	require.Nil(t, ldg.Commit(1, account, journal))
	require.Nil(t, ldg.PersistExecutionResult(mockBlock(1, nil), nil, &pb.InterchainMeta{}))

	exec, err := New(ldg, log.NewWithModule("executor"), &appchain.Client{}, config, big.NewInt(zzFindingGasPrice))
	require.Nil(t, err)

	tx, err := genBVMContractTransaction(privKey, 0, to, method, args...)
	require.Nil(t, err)

	// ---- execute block 2 on this goroutine (what listenPreExecuteEvent / listenExecuteEvent do),
	// ---- so that a panic of the executor is reported instead of killing the test binary
	commitEvent := mockCommitEvent(2, []pb.Transaction{tx})
	var crashed interface{}
	func() {
		defer func() { crashed = recover() }()
		wrapper := exec.verifySign(commitEvent)
		require.Empty(t, wrapper.invalidTx, "signature must verify")
		exec.processExecuteEvent(wrapper)
	}()
	require.Nil(t, crashed, "block execution crashed the executor goroutine (in a node: the whole process): %v", crashed)

	require.EqualValues(t, 2, ldg.GetChainMeta().Height, "block 2 must be committed")
	require.EqualValues(t, 2, exec.currentHeight)
	receipt, err := ldg.GetReceipt(tx.GetHash())
	require.Nil(t, err, "the transaction must have a receipt")
	require.Equal(t, tx.GetHash().String(), receipt.TxHash.String())
	return receipt, ldg
}
