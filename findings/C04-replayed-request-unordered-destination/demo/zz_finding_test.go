package executor

// Finding for property C04 (cross-chain transaction status follows the protocol state machine;
// SUCCESS / FAILURE / ROLLBACK are final and never change again).
//
// Production path exercised here (nothing is mocked below the block executor):
//
//   pier / any client --gRPC SendTransaction(BxhTransaction{IBTP})--> mempool --> consensus -->
//   BlockExecutor.processExecuteEvent --> applyTx --> applyBxhTransaction (tx.IsIBTP()) -->
//   boltvm.HandleIBTP --> InterchainManager.HandleIBTP --> checkIBTP
//        (checkTargetAvailability: isBatch = !dstService.Ordered; request index checked only if !isBatch)
//   --> beginTransaction --> CrossInvoke TransactionManager.Begin --> t.Add("tx-<id>", {BEGIN, H+T})
//
// One hub (1356), 1356:chainA:svcA -> 1356:chainB:svcB, svcB registered with Ordered=false
// (ServiceManager.RegisterService(..., ordered=0, ...)). The real ledger, the real executor and the real
// bolt contracts are used; proof verification is skipped with the executor's own switch (block.Extra != nil),
// and the proof pool holds no replay check anyway (it only verifies the appchain proof of the IBTP).
//
// Sequence: request #1 -> BEGIN; receipt #1 -> SUCCESS (or FAILURE); the same request #1 once more.

import (
	"encoding/json"
	"fmt"
	"io/ioutil"
	"math/big"
	"path/filepath"
	"strconv"
	"testing"
	"time"

	"github.com/meshplus/bitxhub-core/agency"
	appchainMgr "github.com/meshplus/bitxhub-core/appchain-mgr"
	"github.com/meshplus/bitxhub-core/governance"
	service_mgr "github.com/meshplus/bitxhub-core/service-mgr"
	"github.com/meshplus/bitxhub-kit/log"
	"github.com/meshplus/bitxhub-kit/storage/blockfile"
	"github.com/meshplus/bitxhub-kit/storage/leveldb"
	"github.com/meshplus/bitxhub-kit/types"
	"github.com/meshplus/bitxhub-model/constant"
	"github.com/meshplus/bitxhub-model/pb"
	"github.com/meshplus/bitxhub/internal/executor/contracts"
	"github.com/meshplus/bitxhub/internal/executor/oracle/appchain"
	"github.com/meshplus/bitxhub/internal/ledger"
	"github.com/meshplus/bitxhub/pkg/vm"
	"github.com/meshplus/bitxhub/pkg/vm/boltvm"
	"github.com/stretchr/testify/require"
)

const (
	zfHub  = "1356"
	zfFrom = "1356:chainA:svcA"
	zfTo   = "1356:chainB:svcB" // unordered (batch) destination service on the same hub
)

type zfNode struct {
	t      *testing.T
	exec   *BlockExecutor
	ldg    *ledger.Ledger
	sender *types.Address
	nonce  uint64
	height uint64
}

func zfNewNode(t *testing.T) *zfNode {
	config := generateMockConfig(t)
	config.ChainID = 1356
	config.Genesis.ChainID = 1356

	repoRoot, err := ioutil.TempDir("", "zz_finding_c04")
	require.Nil(t, err)
	blockchainStorage, err := leveldb.New(filepath.Join(repoRoot, "storage"))
	require.Nil(t, err)
	ldb, err := leveldb.New(filepath.Join(repoRoot, "ledger"))
	require.Nil(t, err)
	accountCache, err := ledger.NewAccountCache()
	require.Nil(t, err)
	blockFile, err := blockfile.NewBlockFile(repoRoot, log.NewWithModule("blockfile"))
	require.Nil(t, err)
	ldg, err := ledger.New(createMockRepo(t), blockchainStorage, ldb, blockFile, accountCache, log.NewWithModule("ledger"))
	require.Nil(t, err)

	_, sender := loadAdminKey(t)

	// genesis state: who pays and which hub this is
	ldg.SetBalance(sender, new(big.Int).SetUint64(1000000000000))
	ldg.SetState(constant.InterchainContractAddr.Address(), []byte(contracts.BitXHubID), []byte(zfHub), nil)
	hub, err := json.Marshal(&appchainMgr.Appchain{ID: "1357", ChainName: "hub1357", ChainType: appchainMgr.RelaychainType, Status: governance.GovernanceAvailable})
	require.Nil(t, err)
	ldg.SetState(constant.AppchainMgrContractAddr.Address(), []byte(appchainMgr.AppchainKey("1357")), hub, nil)
	accounts, journal := ldg.FlushDirtyData()
	require.Nil(t, ldg.Commit(1, accounts, journal))
	require.Nil(t, ldg.PersistExecutionResult(mockBlock(1, nil), nil, &pb.InterchainMeta{}))

	exec, err := New(ldg, log.NewWithModule("executor"), &appchain.Client{}, config, big.NewInt(1))
	require.Nil(t, err)
	// the two services, as the executor's service cache holds them after registration:
	// the source is ordered, the destination was registered with ordered=0 (batch service)
	exec.serviceCache.Store("chainA:svcA", &service_mgr.Service{ChainID: "chainA", ServiceID: "svcA", Name: "svcA", Ordered: true, Status: governance.GovernanceAvailable})
	exec.serviceCache.Store("chainB:svcB", &service_mgr.Service{ChainID: "chainB", ServiceID: "svcB", Name: "svcB", Ordered: false, Status: governance.GovernanceAvailable})

	return &zfNode{t: t, exec: exec, ldg: ldg, sender: sender, height: 1}
}

// block executes one block holding the given IBTPs through the executor's production path and returns their receipts
func (n *zfNode) block(ibtps ...*pb.IBTP) []*pb.Receipt {
	txs := make([]pb.Transaction, 0, len(ibtps))
	for _, ibtp := range ibtps {
		tx := &pb.BxhTransaction{
			From:      n.sender,
			To:        constant.InterchainContractAddr.Address(),
			Timestamp: time.Now().UnixNano(),
			Nonce:     n.nonce,
			IBTP:      ibtp,
		}
		n.nonce++
		tx.TransactionHash = tx.Hash()
		txs = append(txs, tx)
	}
	n.height++
	blk := mockBlock(n.height, txs)
	blk.Extra = []byte("proofs verified elsewhere") // executor's switch: skip proof verification
	n.exec.processExecuteEvent(&BlockWrapper{block: blk, invalidTx: make(map[int]agency.InvalidReason)})
	require.EqualValues(n.t, n.height, n.exec.currentHeight)

	receipts := make([]*pb.Receipt, 0, len(txs))
	for _, tx := range txs {
		r, err := n.ldg.GetReceipt(tx.GetHash())
		require.Nil(n.t, err)
		receipts = append(receipts, r)
	}
	return receipts
}

func (n *zfNode) query(addr *types.Address, method string, args ...*pb.Arg) ([]byte, error) {
	payload, err := (&pb.InvokePayload{Method: method, Args: args}).Marshal()
	require.Nil(n.t, err)
	tx := &pb.BxhTransaction{From: n.sender, To: addr, Timestamp: time.Now().UnixNano()}
	tx.TransactionHash = tx.Hash()
	ctx := vm.NewContext(tx, 0, nil, n.exec.currentHeight, n.ldg, log.NewWithModule("query"), false, nil)
	ret, _, err := boltvm.New(ctx, nil, nil, n.exec.GetBoltContracts()).Run(payload, 0)
	return ret, err
}

// status is the status query: BVM call GetStatus(id) on the transaction manager
func (n *zfNode) status(id string) pb.TransactionStatus {
	ret, err := n.query(constant.TransactionMgrContractAddr.Address(), "GetStatus", pb.String(id))
	require.Nil(n.t, err)
	v, err := strconv.Atoi(string(ret))
	require.Nil(n.t, err)
	return pb.TransactionStatus(v)
}

// requestCounter is InterchainCounter[to] of the source service (BVM call GetInterchain)
func (n *zfNode) requestCounter() uint64 {
	ret, err := n.query(constant.InterchainContractAddr.Address(), "GetInterchain", pb.String(zfFrom))
	require.Nil(n.t, err)
	ic := &pb.Interchain{}
	require.Nil(n.t, ic.Unmarshal(ret))
	return ic.InterchainCounter[zfTo]
}

func zfRequest(index uint64) *pb.IBTP {
	return &pb.IBTP{From: zfFrom, To: zfTo, Index: index, Type: pb.IBTP_INTERCHAIN, TimeoutHeight: 10, Payload: []byte("payload")}
}

func zfReceipt(index uint64, typ pb.IBTP_Type) *pb.IBTP {
	ibtp := zfRequest(index)
	ibtp.Type = typ
	return ibtp
}

func zfID(index uint64) string {
	return fmt.Sprintf("%s-%s-%d", zfFrom, zfTo, index)
}

func TestZZFindingC04_ReplayedRequestToUnorderedServiceLeavesFinalState(t *testing.T) {
	for _, c := range []struct {
		receipt pb.IBTP_Type
		final   pb.TransactionStatus
	}{
		{pb.IBTP_RECEIPT_SUCCESS, pb.TransactionStatus_SUCCESS},
		{pb.IBTP_RECEIPT_FAILURE, pb.TransactionStatus_FAILURE},
	} {
		c := c
		t.Run(c.final.String(), func(t *testing.T) {
			n := zfNewNode(t)

			// request 1 to the unordered service: accepted, BEGIN
			r := n.block(zfRequest(1))
			require.True(t, r[0].IsSuccess(), string(r[0].Ret))
			require.Equal(t, "batch_ibtp", string(r[0].Ret))
			require.Equal(t, pb.TransactionStatus_BEGIN, n.status(zfID(1)))

			// its receipt: final state
			r = n.block(zfReceipt(1, c.receipt))
			require.True(t, r[0].IsSuccess(), string(r[0].Ret))
			require.Equal(t, c.final, n.status(zfID(1)))
			counter := n.requestCounter()

			// the same request once more (a pier that restarts and re-sends, or anybody replaying the
			// IBTP with its still valid appchain proof in a new transaction)
			r = n.block(zfRequest(1))
			got := n.status(zfID(1))
			t.Logf("replayed request: tx success=%v ret=%q; status %s -> %s; request counter %d -> %d",
				r[0].IsSuccess(), r[0].Ret, c.final, got, counter, n.requestCounter())

			// unrelated blocks, beyond the timeout height of the replay
			for i := 0; i < 12; i++ {
				n.block()
			}
			late := n.status(zfID(1))

			if r[0].IsSuccess() {
				t.Errorf("the replayed request %s was accepted (ret %q)", zfID(1), r[0].Ret)
			}
			if got != c.final || late != c.final {
				t.Errorf("C04 violated: %s is final, the replayed request took the status to %s (12 blocks later: %s)", c.final, got, late)
			}
			if now := n.requestCounter(); now != counter {
				t.Errorf("the rejected replay has an effect: request counter %d -> %d", counter, now)
			}
		})
	}
}

// control: what an unordered destination is for must keep working - requests are accepted in any index order,
// each of them once, and each one runs through its own state machine
func TestZZFindingC04_UnorderedServiceStillTakesAnyIndexOrder(t *testing.T) {
	n := zfNewNode(t)

	r := n.block(zfRequest(5), zfRequest(2))
	require.True(t, r[0].IsSuccess(), string(r[0].Ret))
	require.True(t, r[1].IsSuccess(), string(r[1].Ret))
	r = n.block(zfRequest(3))
	require.True(t, r[0].IsSuccess(), string(r[0].Ret))
	for _, i := range []uint64{2, 3, 5} {
		require.Equal(t, pb.TransactionStatus_BEGIN, n.status(zfID(i)))
	}
	require.EqualValues(t, 3, n.requestCounter())
}
