package executor

import (
	"io/ioutil"
	"math/big"
	"path/filepath"
	"testing"
	"time"

	"github.com/meshplus/bitxhub-core/agency"
	"github.com/meshplus/bitxhub-kit/log"
	"github.com/meshplus/bitxhub-kit/storage/blockfile"
	"github.com/meshplus/bitxhub-kit/storage/leveldb"
	"github.com/meshplus/bitxhub-kit/types"
	"github.com/meshplus/bitxhub-model/constant"
	"github.com/meshplus/bitxhub-model/pb"
	"github.com/meshplus/bitxhub/internal/executor/contracts"
	"github.com/meshplus/bitxhub/internal/ledger"
	"github.com/meshplus/bitxhub/internal/executor/oracle/appchain"
	"github.com/stretchr/testify/require"
)

// C07 / item 1: a transaction that FAILS only because what it left behind cannot pay the fee is reverted,
// so the sender is back at the balance it had before the transaction.  That balance covers the fee; the
// property allows charging the fee, and the whole balance only when the fee cannot be covered.
//
// Real ledger (leveldb), real BlockExecutor, the transaction goes through applyTransaction exactly as
// the serial executor calls it.
func TestFinding_FeeFailureTakesOnlyTheFee(t *testing.T) {
	price := big.NewInt(5000000)
	fee := new(big.Int).Mul(big.NewInt(GasNormalTx), price) // 105000000000
	start := new(big.Int).Mul(fee, big.NewInt(3))           // the sender can pay the fee three times

	config := generateMockConfig(t)
	repoRoot, err := ioutil.TempDir("", "executor")
	require.Nil(t, err)
	blockchainStorage, err := leveldb.New(filepath.Join(repoRoot, "storage"))
	require.Nil(t, err)
	ldb, err := leveldb.New(filepath.Join(repoRoot, "ledger"))
	require.Nil(t, err)
	accountCache, err := ledger.NewAccountCache()
	require.Nil(t, err)
	blockFile, err := blockfile.NewBlockFile(repoRoot, log.NewWithModule("executor_test"))
	require.Nil(t, err)
	ldg, err := ledger.New(createMockRepo(t), blockchainStorage, ldb, blockFile, accountCache, log.NewWithModule("ledger"))
	require.Nil(t, err)

	privKey, from := loadAdminKey(t)
	to := randAddress(t)

	ldg.SetBalance(from, start)
	account, journal := ldg.FlushDirtyData()
	require.Nil(t, ldg.Commit(1, account, journal))
	require.Nil(t, ldg.PersistExecutionResult(mockBlock(1, nil), nil, &pb.InterchainMeta{}))
	ldg.SetState(constant.InterchainContractAddr.Address(), []byte(contracts.BitXHubID), []byte("1"), nil)

	exec, err := New(ldg, log.NewWithModule("executor"), &appchain.Client{}, config, price)
	require.Nil(t, err)
	require.Nil(t, exec.Start())
	defer exec.Stop()

	// NORMAL transfer of 2*fee+1: it executes, and leaves fee-1, one unit short of the fee
	amount := new(big.Int).Add(new(big.Int).Mul(fee, big.NewInt(2)), big.NewInt(1))
	td := &pb.TransactionData{Type: pb.TransactionData_NORMAL, Amount: amount.String()}
	payload, err := td.Marshal()
	require.Nil(t, err)
	tx := &pb.BxhTransaction{
		From:      from,
		To:        to,
		Timestamp: time.Now().UnixNano(),
		Payload:   payload,
		Amount:    amount.String(),
	}
	require.Nil(t, tx.Sign(privKey))
	tx.TransactionHash = tx.Hash()

	admin := types.NewAddressByStr(exec.admins[0])
	adminBefore := new(big.Int).Set(ldg.GetBalance(admin))

	receipt := exec.applyTransaction(0, tx, agency.InvalidReason(""), nil)

	after := ldg.GetBalance(from)
	adminGain := new(big.Int).Sub(ldg.GetBalance(admin), adminBefore)
	t.Logf("status=%s ret=%s start=%s fee=%s sender after=%s receiver after=%s admins got=%s",
		receipt.Status, receipt.Ret, start, fee, after, ldg.GetBalance(to), adminGain)

	require.Equal(t, pb.Receipt_FAILED, receipt.Status, "what is left after the transfer cannot pay the fee")
	require.Equal(t, "0", ldg.GetBalance(to).String(), "the failed transfer is undone")
	require.Equal(t, uint64(1), ldg.GetNonce(from)-tx.GetNonce(), "nonce advances")

	// the only allowed effects: nonce + the fee (the sender can cover it: it holds 3*fee after the revert)
	want := new(big.Int).Sub(start, fee)
	require.Equal(t, want.String(), after.String(),
		"a FAILED transaction of a sender who can cover the fee costs the fee, not the whole balance")
	require.Equal(t, fee.String(), adminGain.String(), "the admins receive the fee, not the sender's whole balance")
}

// The other half of the clause stays as it is: a sender that cannot cover the fee even after the revert
// loses everything it has left.
func TestFinding_FeeFailureStillTakesAllWhenFeeNotCovered(t *testing.T) {
	price := big.NewInt(5000000)
	fee := new(big.Int).Mul(big.NewInt(GasNormalTx), price)
	start := new(big.Int).Sub(fee, big.NewInt(7)) // below the fee

	config := generateMockConfig(t)
	repoRoot, err := ioutil.TempDir("", "executor")
	require.Nil(t, err)
	blockchainStorage, err := leveldb.New(filepath.Join(repoRoot, "storage"))
	require.Nil(t, err)
	ldb, err := leveldb.New(filepath.Join(repoRoot, "ledger"))
	require.Nil(t, err)
	accountCache, err := ledger.NewAccountCache()
	require.Nil(t, err)
	blockFile, err := blockfile.NewBlockFile(repoRoot, log.NewWithModule("executor_test"))
	require.Nil(t, err)
	ldg, err := ledger.New(createMockRepo(t), blockchainStorage, ldb, blockFile, accountCache, log.NewWithModule("ledger"))
	require.Nil(t, err)

	privKey, from := loadAdminKey(t)
	to := randAddress(t)

	ldg.SetBalance(from, start)
	account, journal := ldg.FlushDirtyData()
	require.Nil(t, ldg.Commit(1, account, journal))
	require.Nil(t, ldg.PersistExecutionResult(mockBlock(1, nil), nil, &pb.InterchainMeta{}))
	ldg.SetState(constant.InterchainContractAddr.Address(), []byte(contracts.BitXHubID), []byte("1"), nil)

	exec, err := New(ldg, log.NewWithModule("executor"), &appchain.Client{}, config, price)
	require.Nil(t, err)
	require.Nil(t, exec.Start())
	defer exec.Stop()

	td := &pb.TransactionData{Type: pb.TransactionData_NORMAL, Amount: "5"}
	payload, err := td.Marshal()
	require.Nil(t, err)
	tx := &pb.BxhTransaction{From: from, To: to, Timestamp: time.Now().UnixNano(), Payload: payload, Amount: "5"}
	require.Nil(t, tx.Sign(privKey))
	tx.TransactionHash = tx.Hash()

	admin := types.NewAddressByStr(exec.admins[0])
	adminBefore := new(big.Int).Set(ldg.GetBalance(admin))

	receipt := exec.applyTransaction(0, tx, agency.InvalidReason(""), nil)

	require.Equal(t, pb.Receipt_FAILED, receipt.Status)
	require.Equal(t, "0", ldg.GetBalance(to).String())
	require.Equal(t, "0", ldg.GetBalance(from).String(), "cannot cover the fee: everything left is taken")
	adminGain := new(big.Int).Sub(ldg.GetBalance(admin), adminBefore)
	// payAdmins divides by the number of configured admins (integer division), every admin entry gets a share
	share := new(big.Int).Div(start, big.NewInt(int64(len(exec.admins))))
	n := 0
	for _, a := range exec.admins {
		if a == exec.admins[0] {
			n++
		}
	}
	require.Equal(t, new(big.Int).Mul(share, big.NewInt(int64(n))).String(), adminGain.String())
}
