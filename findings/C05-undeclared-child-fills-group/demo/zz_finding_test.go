package contracts

// Demonstration for property C05 (one-to-many cross-chain transactions are all-or-nothing), items
//   (1) children are never checked against the declared group: a non-member child fills the count;
//   (2) a child that joins a group that is already SUCCESS is recorded SUCCESS at once, even when its
//       destination is unavailable.
//
// Production path: every step below is one IBTP transaction (tx.IsIBTP()) in a block:
//   BlockExecutor.applyBxhTransaction -> boltvm.HandleIBTP -> InterchainManager.HandleIBTP
//     request : -> beginTransaction  -> CrossInvoke TransactionManager.BeginMultiTXs
//     receipt : -> reportTransaction -> CrossInvoke TransactionManager.Report
// The REAL InterchainManager and TransactionManager are driven through InterchainManager.HandleIBTP over a
// small in-memory boltvm.Stub (a key/value store per contract address, cross-contract calls routed by
// reflection like pkg/vm/boltvm does); a rejected transaction leaves no state behind, like in the executor.

import (
	"crypto/sha256"
	"encoding/json"
	"fmt"
	"io/ioutil"
	"reflect"
	"sort"
	"strconv"
	"strings"
	"sync"
	"testing"

	"github.com/meshplus/bitxhub-core/boltvm"
	"github.com/meshplus/bitxhub-core/governance"
	service_mgr "github.com/meshplus/bitxhub-core/service-mgr"
	"github.com/meshplus/bitxhub-core/validator"
	"github.com/meshplus/bitxhub-kit/types"
	"github.com/meshplus/bitxhub-model/constant"
	"github.com/meshplus/bitxhub-model/pb"
	"github.com/sirupsen/logrus"
	"github.com/stretchr/testify/require"
)

const (
	zzBxhID = "1356"
	zzSrc   = "1356:chain0:service0"
)

// ---------------------------------------------------------------------------
// in-memory world state + stub

type zzWorld struct {
	state   map[string][]byte // "<contract address>/<key>" -> value
	height  uint64
	txIndex uint64
	txCount uint64
	// interchain event posted by the transaction that is being executed
	lastEvent map[string]*pb.EventWrapper
	cache     *sync.Map
	logger    *logrus.Logger
}

func newZZWorld() *zzWorld {
	logger := logrus.New()
	logger.SetOutput(ioutil.Discard)
	w := &zzWorld{
		state:  make(map[string][]byte),
		cache:  &sync.Map{},
		logger: logger,
	}
	w.state[constant.InterchainContractAddr.Address().String()+"/"+BitXHubID] = []byte(zzBxhID)
	return w
}

func (w *zzWorld) addService(chainID, serviceID string, status governance.GovernanceStatus) {
	w.cache.Store(fmt.Sprintf("%s:%s", chainID, serviceID), &service_mgr.Service{
		ChainID:    chainID,
		ServiceID:  serviceID,
		Ordered:    true,
		Permission: map[string]struct{}{},
		Status:     status,
	})
}

type zzStub struct {
	w             *zzWorld
	callee        string
	currentCaller string
}

var _ boltvm.Stub = (*zzStub)(nil)

func (s *zzStub) k(key string) string        { return s.callee + "/" + key }
func (s *zzStub) Caller() string             { return "0x0000000000000000000000000000000000000abc" }
func (s *zzStub) Callee() string             { return s.callee }
func (s *zzStub) CurrentCaller() string      { return s.currentCaller }
func (s *zzStub) Logger() logrus.FieldLogger { return s.w.logger }
func (s *zzStub) GetTxHash() *types.Hash {
	h := sha256.Sum256([]byte(fmt.Sprintf("seed-tx-%d", s.w.txCount)))
	return types.NewHash(h[:])
}
func (s *zzStub) GetTxTimeStamp() int64    { return int64(s.w.txCount) }
func (s *zzStub) GetTxIndex() uint64       { return s.w.txIndex }
func (s *zzStub) GetCurrentHeight() uint64 { return s.w.height }
func (s *zzStub) Has(key string) bool {
	ok, _ := s.Get(key)
	return ok
}
func (s *zzStub) Get(key string) (bool, []byte) {
	v, ok := s.w.state[s.k(key)]
	if !ok || v == nil {
		return false, nil
	}
	return true, v
}
func (s *zzStub) GetObject(key string, ret interface{}) bool {
	ok, data := s.Get(key)
	if !ok {
		return false
	}
	return json.Unmarshal(data, ret) == nil
}
func (s *zzStub) Set(key string, value []byte) {
	s.w.state[s.k(key)] = append([]byte{}, value...)
}
func (s *zzStub) SetObject(key string, value interface{}) {
	data, err := json.Marshal(value)
	if err != nil {
		panic(err)
	}
	s.Set(key, data)
}
func (s *zzStub) Add(key string, value []byte)            { s.Set(key, value) }
func (s *zzStub) AddObject(key string, value interface{}) { s.SetObject(key, value) }
func (s *zzStub) Delete(key string)                       { delete(s.w.state, s.k(key)) }
func (s *zzStub) Query(prefix string) (bool, [][]byte) {
	var keys []string
	for k := range s.w.state {
		if strings.HasPrefix(k, s.k(prefix)) {
			keys = append(keys, k)
		}
	}
	sort.Strings(keys)
	var ret [][]byte
	for _, k := range keys {
		ret = append(ret, s.w.state[k])
	}
	return len(ret) != 0, ret
}
func (s *zzStub) PostEvent(pb.Event_EventType, interface{}) {}
func (s *zzStub) PostInterchainEvent(ev interface{}) {
	if m, ok := ev.(map[string]*pb.EventWrapper); ok {
		s.w.lastEvent = m
	}
}
func (s *zzStub) ValidationEngine() validator.Engine { return nil }
func (s *zzStub) CrossInvokeEVM(string, []byte) *boltvm.Response {
	return boltvm.Success(nil)
}
func (s *zzStub) GetAccount(string) interface{} { return nil }
func (s *zzStub) EnableAudit() bool             { return false }

func (s *zzStub) CrossInvoke(address, method string, args ...*pb.Arg) *boltvm.Response {
	sub := &zzStub{w: s.w, callee: address, currentCaller: s.callee}
	switch address {
	case constant.TransactionMgrContractAddr.Address().String():
		return zzInvoke(&TransactionManager{Stub: sub}, method, args)
	case constant.ServiceMgrContractAddr.Address().String():
		if method == "GetServiceInfo" {
			return boltvm.Error(boltvm.ServiceNonexistentServiceCode, "no such service")
		}
		// RecordInvokeService: statistics only
		return boltvm.Success(nil)
	}
	return boltvm.Success(nil)
}

// zzInvoke calls a contract method with boltvm-encoded arguments (cf. pkg/vm/boltvm parseArgs)
func zzInvoke(contract interface{}, method string, in []*pb.Arg) *boltvm.Response {
	m := reflect.ValueOf(contract).MethodByName(method)
	if !m.IsValid() {
		return boltvm.Error(boltvm.OtherInternalErrCode, "no such method "+method)
	}
	args := make([]reflect.Value, len(in))
	for i, a := range in {
		switch a.Type {
		case pb.Arg_I32:
			v, _ := strconv.Atoi(string(a.Value))
			args[i] = reflect.ValueOf(int32(v))
		case pb.Arg_I64:
			v, _ := strconv.Atoi(string(a.Value))
			args[i] = reflect.ValueOf(int64(v))
		case pb.Arg_U64:
			v, _ := strconv.ParseUint(string(a.Value), 10, 64)
			args[i] = reflect.ValueOf(v)
		case pb.Arg_Bool:
			v, _ := strconv.ParseBool(string(a.Value))
			args[i] = reflect.ValueOf(v)
		case pb.Arg_Bytes:
			args[i] = reflect.ValueOf(a.Value)
		default:
			args[i] = reflect.ValueOf(string(a.Value))
		}
	}
	return m.Call(args)[0].Interface().(*boltvm.Response)
}

// ---------------------------------------------------------------------------
// driving the contracts

// tryIBTP executes one IBTP transaction in block `height`; a rejected transaction is reverted
// (BlockExecutor.applyTransaction reverts to the snapshot taken before the transaction)
func (w *zzWorld) tryIBTP(height uint64, ibtp *pb.IBTP) (*boltvm.Response, map[string]*pb.EventWrapper) {
	if height != w.height {
		w.height = height
		w.txIndex = 0
	} else {
		w.txIndex++
	}
	w.txCount++
	w.lastEvent = nil
	snapshot := make(map[string][]byte, len(w.state))
	for k, v := range w.state {
		snapshot[k] = v
	}
	im := &InterchainManager{
		Stub: &zzStub{
			w:             w,
			callee:        constant.InterchainContractAddr.Address().String(),
			currentCaller: "0x0000000000000000000000000000000000000abc",
		},
		ServiceCache: w.cache,
	}
	res := im.HandleIBTP(ibtp)
	if !res.Ok {
		w.state = snapshot
		w.lastEvent = nil
	}
	return res, w.lastEvent
}

// execIBTP: the transaction has to be accepted
func (w *zzWorld) execIBTP(t *testing.T, height uint64, ibtp *pb.IBTP) ([]byte, map[string]*pb.EventWrapper) {
	res, ev := w.tryIBTP(height, ibtp)
	require.True(t, res.Ok, "HandleIBTP(%s, %v): %s", ibtp.ID(), ibtp.Type, string(res.Result))
	return res.Result, ev
}

// multiTxCounter is what BlockExecutor.getMultiTxIBTPsMap(height) yields: chain id -> child ids to roll back
func (w *zzWorld) multiTxCounter(t *testing.T, height uint64) map[string][]string {
	m := make(map[string][]string)
	v, ok := w.state[constant.InterchainContractAddr.Address().String()+"/"+MultiTxNotifyKey(height)]
	if !ok {
		return m
	}
	require.Nil(t, json.Unmarshal(v, &m))
	return m
}

func (w *zzWorld) groupInfo(t *testing.T, globalID string) TransactionInfo {
	info := TransactionInfo{}
	v, ok := w.state[constant.TransactionMgrContractAddr.Address().String()+"/"+GlobalTxInfoKey(globalID)]
	require.True(t, ok, "group record %s", globalID)
	require.Nil(t, json.Unmarshal(v, &info))
	return info
}

func (w *zzWorld) status(t *testing.T, id string) pb.TransactionStatus {
	tm := &TransactionManager{Stub: &zzStub{
		w:             w,
		callee:        constant.TransactionMgrContractAddr.Address().String(),
		currentCaller: constant.InterchainContractAddr.Address().String(),
	}}
	res := tm.GetStatus(id)
	require.True(t, res.Ok, string(res.Result))
	v, err := strconv.Atoi(string(res.Result))
	require.Nil(t, err)
	return pb.TransactionStatus(v)
}

func zzTo(chain string) string {
	return fmt.Sprintf("%s:chain%s:service%s", zzBxhID, chain, chain)
}

func zzChild(group *pb.StringUint64Map, chain string, typ pb.IBTP_Type) *pb.IBTP {
	return &pb.IBTP{
		From:          zzSrc,
		To:            zzTo(chain),
		Index:         1,
		Type:          typ,
		TimeoutHeight: 10,
		Group:         group,
	}
}

func zzContains(list []string, id string) bool {
	for _, v := range list {
		if v == id {
			return true
		}
	}
	return false
}

// ---------------------------------------------------------------------------
// the demonstrations

func zzSetup() (*zzWorld, *pb.StringUint64Map) {
	w := newZZWorld()
	w.addService("chain0", "service0", governance.GovernanceAvailable)
	w.addService("chainB", "serviceB", governance.GovernanceAvailable)
	w.addService("chainD", "serviceD", governance.GovernanceAvailable)
	// the destination of the second declared child is not available
	w.addService("chainC", "serviceC", governance.GovernanceFrozen)

	// the group declares two children: chain0 -> chainB (index 1) and chain0 -> chainC (index 1)
	group := &pb.StringUint64Map{
		Keys: []string{zzTo("B"), zzTo("C")},
		Vals: []uint64{1, 1},
	}
	return w, group
}

// Item 1. The group declares {chainB:1, chainC:1}. The source submits the declared child to chainB and a
// child to chainD - not a member - that carries the same group. Both report SUCCESS. The declared child to
// chainC never began, so the global status must not be SUCCESS.
func TestZZFindingC05_NonMemberChildFillsTheCount(t *testing.T) {
	w, group := zzSetup()
	cB := zzChild(group, "B", pb.IBTP_INTERCHAIN)
	cD := zzChild(group, "D", pb.IBTP_INTERCHAIN) // chainD is not declared by the group
	cC := zzChild(group, "C", pb.IBTP_INTERCHAIN)
	globalID, err := genGlobalTxID(cB)
	require.Nil(t, err)

	// block 2: the declared child to chainB begins; block 3: the undeclared child to chainD is submitted
	w.execIBTP(t, 2, cB)
	resD, _ := w.tryIBTP(3, cD)
	t.Logf("undeclared child %s: accepted=%v ret=%q; group after it: %+v", cD.ID(), resD.Ok, string(resD.Result), w.groupInfo(t, globalID))

	// block 4: both destinations report SUCCESS (the hub may refuse these receipts once the group has failed)
	rB, _ := w.tryIBTP(4, zzChild(group, "B", pb.IBTP_RECEIPT_SUCCESS))
	rD, _ := w.tryIBTP(4, zzChild(group, "D", pb.IBTP_RECEIPT_SUCCESS))
	t.Logf("receipt SUCCESS of %s accepted=%v, of %s accepted=%v", cB.ID(), rB.Ok, cD.ID(), rD.Ok)

	info := w.groupInfo(t, globalID)
	t.Logf("group %s after the receipts: %+v", globalID, info)
	_, began := info.ChildTxInfo[cC.ID()]
	require.False(t, began, "the declared child %s never began", cC.ID())
	require.NotEqual(t, pb.TransactionStatus_SUCCESS, w.status(t, globalID),
		"global status is SUCCESS although the declared child %s never began (children counted: %v)", cC.ID(), info.ChildTxInfo)
	// no child may be left SUCCESS when its group is not
	for id, st := range info.ChildTxInfo {
		require.NotEqual(t, pb.TransactionStatus_SUCCESS, st, "child %s", id)
	}
}

// Item 2, through the same production sequence: after the sequence of item 1 the declared child to chainC
// begins, and chainC is not available. It must not be recorded SUCCESS, and the source must not be told it
// succeeded.
func TestZZFindingC05_ChildJoiningAfterwardsIsNotSuccess(t *testing.T) {
	w, group := zzSetup()
	cB := zzChild(group, "B", pb.IBTP_INTERCHAIN)
	cD := zzChild(group, "D", pb.IBTP_INTERCHAIN)
	cC := zzChild(group, "C", pb.IBTP_INTERCHAIN)
	globalID, err := genGlobalTxID(cB)
	require.Nil(t, err)

	w.execIBTP(t, 2, cB)
	w.tryIBTP(3, cD)
	w.tryIBTP(4, zzChild(group, "B", pb.IBTP_RECEIPT_SUCCESS))
	w.tryIBTP(4, zzChild(group, "D", pb.IBTP_RECEIPT_SUCCESS))

	// block 5: the declared child to the frozen chainC begins
	resC, ev := w.tryIBTP(5, cC)
	info := w.groupInfo(t, globalID)
	t.Logf("child %s to an unavailable destination: accepted=%v ret=%q event=%v; group: %+v", cC.ID(), resC.Ok, string(resC.Result), ev, info)
	zzRequireNotJoinedAsSuccess(t, w, globalID, cC, resC, ev)
}

// Item 2 in isolation. The group record below is exactly what the sequence of item 1 leaves in the state of
// the transaction manager on the unchanged tree (a chain that ran that code can hold it): global SUCCESS,
// count 2, children {chainB: SUCCESS, chainD: SUCCESS}. Then the declared child to the frozen chainC begins
// through HandleIBTP.
func TestZZFindingC05_JoinOfASuccessGroupIsNotSuccess(t *testing.T) {
	w, group := zzSetup()
	cB := zzChild(group, "B", pb.IBTP_INTERCHAIN)
	cD := zzChild(group, "D", pb.IBTP_INTERCHAIN)
	cC := zzChild(group, "C", pb.IBTP_INTERCHAIN)
	globalID, err := genGlobalTxID(cB)
	require.Nil(t, err)

	tm := &zzStub{w: w, callee: constant.TransactionMgrContractAddr.Address().String()}
	tm.SetObject(GlobalTxInfoKey(globalID), TransactionInfo{
		GlobalState:  pb.TransactionStatus_SUCCESS,
		Height:       12,
		ChildTxCount: 2,
		ChildTxInfo: map[string]pb.TransactionStatus{
			cB.ID(): pb.TransactionStatus_SUCCESS,
			cD.ID(): pb.TransactionStatus_SUCCESS,
		},
	})
	tm.Set(cB.ID(), []byte(globalID))
	tm.Set(cD.ID(), []byte(globalID))

	resC, ev := w.tryIBTP(5, cC)
	t.Logf("child %s to an unavailable destination: accepted=%v ret=%q event=%v; group: %+v", cC.ID(), resC.Ok, string(resC.Result), ev, w.groupInfo(t, globalID))
	zzRequireNotJoinedAsSuccess(t, w, globalID, cC, resC, ev)
}

func zzRequireNotJoinedAsSuccess(t *testing.T, w *zzWorld, globalID string, child *pb.IBTP, res *boltvm.Response, ev map[string]*pb.EventWrapper) {
	info := w.groupInfo(t, globalID)
	st, joined := info.ChildTxInfo[child.ID()]
	if !res.Ok {
		// refused: nothing recorded, nobody notified
		require.False(t, joined, "a refused child is recorded: %+v", info)
		return
	}
	require.True(t, joined)
	require.NotEqual(t, pb.TransactionStatus_SUCCESS, st,
		"child %s (destination unavailable, HandleIBTP answered %q) is recorded SUCCESS without ever reaching its destination; event posted: %v", child.ID(), string(res.Result), ev)
	require.NotEqual(t, pb.TransactionStatus_SUCCESS, w.status(t, globalID), "the group of a failed child is SUCCESS")
}
