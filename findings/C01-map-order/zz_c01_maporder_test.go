package contracts

import (
	"testing"

	"github.com/golang/mock/gomock"
	"github.com/meshplus/bitxhub-core/boltvm/mock_stub"
	"github.com/meshplus/bitxhub-kit/log"
	"github.com/meshplus/bitxhub-model/constant"
	"github.com/meshplus/bitxhub-model/pb"
	"github.com/stretchr/testify/require"
)

// Every replica must answer the same bytes: the response of a failed call is the receipt's Ret.
func TestZZC01_CheckDappInfoFirstOffender(t *testing.T) {
	answers := map[string]bool{}
	for i := 0; i < 200; i++ {
		mockCtl := gomock.NewController(t)
		mockStub := mock_stub.NewMockStub(mockCtl)
		mockStub.EXPECT().GetObject(gomock.Any(), gomock.Any()).Return(false).AnyTimes()
		mockStub.EXPECT().Get(gomock.Any()).Return(false, nil).AnyTimes()
		dm := &DappManager{Stub: mockStub}
		d := &Dapp{DappID: "d", Name: "n", Type: DappTool, OwnerAddr: "0x2962b85e2bEe2e1eA9C4CD69f2758cF7bbc3297E",
			ContractAddr: map[string]struct{}{"zz-first": {}, "zz-second": {}, "zz-third": {}}, Url: "u", Desc: "d"}
		res := dm.checkDappInfo(d, true)
		require.False(t, res.Ok)
		answers[string(res.Result)] = true
	}
	require.Equal(t, 1, len(answers), "the same call produced different responses: %v", answers)
}

// A failing child of a one-to-many transaction: the lists of ids to notify are stored in contract state.
func TestZZC01_BeginMultiTXsNotifyOrder(t *testing.T) {
	ids := []string{
		"1356:chain0:service0-1356:chain1:service1-1",
		"1356:chain0:service0-1356:chain2:service2-1",
		"1356:chain0:service0-1356:chain3:service3-1",
		"1356:chain0:service0-1356:chain4:service4-1",
	}
	failing := "1356:chain0:service0-1356:chain5:service5-1"
	answers := map[string]bool{}
	for i := 0; i < 200; i++ {
		mockCtl := gomock.NewController(t)
		mockStub := mock_stub.NewMockStub(mockCtl)
		mockStub.EXPECT().GetCurrentHeight().Return(uint64(100)).AnyTimes()
		mockStub.EXPECT().Logger().Return(log.NewWithModule("transaction_contract")).AnyTimes()
		mockStub.EXPECT().CurrentCaller().Return(constant.InterchainContractAddr.Address().String()).AnyTimes()
		child := map[string]pb.TransactionStatus{}
		for _, id := range ids {
			child[id] = pb.TransactionStatus_SUCCESS
		}
		info := TransactionInfo{GlobalState: pb.TransactionStatus_BEGIN, ChildTxInfo: child, Height: 110, ChildTxCount: 5}
		mockStub.EXPECT().GetObject(GlobalTxInfoKey("g"), gomock.Any()).SetArg(1, info).Return(true).AnyTimes()
		mockStub.EXPECT().Get(gomock.Any()).Return(true, []byte("g")).AnyTimes()
		mockStub.EXPECT().Set(gomock.Any(), gomock.Any()).AnyTimes()
		mockStub.EXPECT().SetObject(gomock.Any(), gomock.Any()).AnyTimes()
		tm := &TransactionManager{Stub: mockStub}
		res := tm.BeginMultiTXs("g", failing, 10, true, 5)
		require.True(t, res.Ok, string(res.Result))
		answers[string(res.Result)] = true
	}
	require.Equal(t, 1, len(answers), "the same call produced %d different status changes (NotifySrcIBTPIDs / NotifyDstIBTPIDs / ChildIBTPIDs follow the map order)", len(answers))
}
