package wasm

import (
	"testing"

	"github.com/bytecodealliance/wasmtime-go"
	"github.com/meshplus/bitxhub-kit/types"
	"github.com/meshplus/bitxhub-model/pb"
	"github.com/meshplus/bitxhub/pkg/vm"
	"github.com/meshplus/bitxhub/pkg/vm/wasm/vmledger"
	"github.com/stretchr/testify/require"
)

// A deployed contract that hands an out-of-range pointer to a host function: the host function
// slices the instance memory with it and panics; wasmtime re-raises host panics in Func.Call.
// The invocation has to end as a failed call (error), not as a panic that leaves WasmVM.Run.
const zzEvilWat = `(module
  (import "env" "get_state" (func $get_state (param i32) (result i32)))
  (memory (export "memory") 1)
  (func (export "allocate") (param i32) (result i32) (i32.const 0))
  (func (export "boom") (result i32) (call $get_state (i32.const -1)))
)`

func TestZZC08_HostPanicDoesNotLeaveRun(t *testing.T) {
	code, err := wasmtime.Wat2Wasm(zzEvilWat)
	require.Nil(t, err)

	ctx := initCreateContext(t, "zzc08")
	ctx.TransactionData = &pb.TransactionData{Payload: code}
	w, err := New(ctx, nil, make(map[string]interface{}), NewStore())
	require.Nil(t, err)
	addr, _, err := w.deploy()
	require.Nil(t, err)

	payload, err := (&pb.InvokePayload{Method: "boom"}).Marshal()
	require.Nil(t, err)
	ctx1 := &vm.Context{
		Caller: ctx.Caller, CurrentCaller: ctx.CurrentCaller, Callee: types.NewAddress(addr),
		TransactionData: &pb.TransactionData{Payload: payload}, Ledger: ctx.Ledger, Tx: ctx.Tx, Logger: ctx.Logger,
	}
	context1 := make(map[string]interface{})
	store1 := NewStore()
	w1, err := New(ctx1, vmledger.NewLedgerWasmLibs(context1, store1), context1, store1)
	require.Nil(t, err)

	var runErr error
	require.NotPanics(t, func() { _, _, runErr = w1.Run(payload, wasmGasLimit) }, "a contract must not be able to crash the node")
	require.NotNil(t, runErr)
}
