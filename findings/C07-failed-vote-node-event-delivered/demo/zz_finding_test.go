package executor_test

// Demo for triage item 3 (property C07): the NODEMGR event of a FAILED governance vote is
// still forwarded to the node feed (-> internal/app/feedhub.go -> Order.DelNode).
//
// Everything below is the real code: real leveldb-backed ledger, the real genesis
// initialisation, the real BlockExecutor with the real BoltVM contracts (NodeManager,
// Governance, Role); blocks are fed through ExecuteBlock like the ordering layer does.
//
// History driven through blocks 2..6:
//   block 2  admin1 RegisterNode(vp node #5); admin1, admin2, admin3 vote approve
//            -> node #5 available (the register NODEMGR event is expected)
//   block 3  admin1 LogoutNode(node #5); admin1 (super admin), admin2 vote approve
//            -> one more approval concludes the proposal
//   block 4  admin4 transfers all it owns away (keeps exactly the fee of that transfer)
//   block 5  admin4 casts the deciding vote. NodeManager.Manage posts the logout
//            NODEMGR event, then the fee cannot be paid: receipt FAILED, ledger reverted
//            (node #5 still "logouting", proposal still "proposed").
//            EXPECTED: no NodeEvent. UNCHANGED TREE: NodeEvent{logout, 5} is delivered.
//   block 6  admin4 is funded again and repeats the vote: SUCCESS -> the logout event must
//            be delivered (exactly once) - the feature itself stays.

import (
	"encoding/json"
	"io/ioutil"
	"math/big"
	"path/filepath"
	"testing"
	"time"

	"github.com/meshplus/bitxhub-core/governance"
	nodemgr "github.com/meshplus/bitxhub-core/node-mgr"
	"github.com/meshplus/bitxhub-kit/crypto"
	"github.com/meshplus/bitxhub-kit/crypto/asym"
	"github.com/meshplus/bitxhub-kit/log"
	"github.com/meshplus/bitxhub-kit/storage/blockfile"
	"github.com/meshplus/bitxhub-kit/storage/leveldb"
	"github.com/meshplus/bitxhub-kit/types"
	"github.com/meshplus/bitxhub-model/constant"
	"github.com/meshplus/bitxhub-model/pb"
	"github.com/meshplus/bitxhub/internal/executor"
	"github.com/meshplus/bitxhub/internal/executor/contracts"
	"github.com/meshplus/bitxhub/internal/executor/oracle/appchain"
	"github.com/meshplus/bitxhub/internal/ledger"
	"github.com/meshplus/bitxhub/internal/ledger/genesis"
	"github.com/meshplus/bitxhub/internal/model/events"
	"github.com/meshplus/bitxhub/internal/repo"
	"github.com/stretchr/testify/require"
)

type zzAdmin struct {
	key   crypto.PrivateKey
	addr  *types.Address
	nonce uint64
}

func zzNewAdmin(t *testing.T) *zzAdmin {
	key, err := asym.GenerateKeyPair(crypto.Secp256k1)
	require.Nil(t, err)
	addr, err := key.PublicKey().Address()
	require.Nil(t, err)
	return &zzAdmin{key: key, addr: addr}
}

func (a *zzAdmin) sign(t *testing.T, tx *pb.BxhTransaction) pb.Transaction {
	tx.From = a.addr
	tx.Nonce = a.nonce
	tx.Timestamp = time.Now().UnixNano()
	a.nonce++
	require.Nil(t, tx.Sign(a.key))
	tx.TransactionHash = tx.Hash()
	return tx
}

func (a *zzAdmin) invoke(t *testing.T, to constant.BoltContractAddress, method string, args ...*pb.Arg) pb.Transaction {
	pl, err := (&pb.InvokePayload{Method: method, Args: args}).Marshal()
	require.Nil(t, err)
	td, err := (&pb.TransactionData{Type: pb.TransactionData_INVOKE, VmType: pb.TransactionData_BVM, Payload: pl}).Marshal()
	require.Nil(t, err)
	return a.sign(t, &pb.BxhTransaction{To: to.Address(), Payload: td})
}

func (a *zzAdmin) transfer(t *testing.T, to *types.Address, amount *big.Int) pb.Transaction {
	td, err := (&pb.TransactionData{Type: pb.TransactionData_NORMAL, Amount: amount.String()}).Marshal()
	require.Nil(t, err)
	return a.sign(t, &pb.BxhTransaction{To: to, Payload: td, Amount: amount.String()})
}

func TestZZFinding_FailedVoteStillDeliversNodeEvent(t *testing.T) {
	gasPrice := big.NewInt(5000000)

	// ---- real ledger -------------------------------------------------------------------
	repoRoot, err := ioutil.TempDir("", "zz_item3")
	require.Nil(t, err)
	blockchainStorage, err := leveldb.New(filepath.Join(repoRoot, "storage"))
	require.Nil(t, err)
	ldb, err := leveldb.New(filepath.Join(repoRoot, "ledger"))
	require.Nil(t, err)
	accountCache, err := ledger.NewAccountCache()
	require.Nil(t, err)
	blockFile, err := blockfile.NewBlockFile(repoRoot, log.NewWithModule("zz"))
	require.Nil(t, err)
	nodeKey, err := asym.GenerateKeyPair(crypto.Secp256k1)
	require.Nil(t, err)
	nodeAddr, err := nodeKey.PublicKey().Address()
	require.Nil(t, err)
	rep := &repo.Repo{Key: &repo.Key{PrivKey: nodeKey, Address: nodeAddr.String()}, Config: &repo.Config{}}
	rep.Config.Executor.Type = "serial"
	ldg, err := ledger.New(rep, blockchainStorage, ldb, blockFile, accountCache, log.NewWithModule("ledger"))
	require.Nil(t, err)

	// ---- genesis: 4 admins (admin1 = super admin), 4 primary vp nodes -------------------
	admins := []*zzAdmin{zzNewAdmin(t), zzNewAdmin(t), zzNewAdmin(t), zzNewAdmin(t)}
	config, err := repo.DefaultConfig()
	require.Nil(t, err)
	config.Genesis.Balance = "1000000000000000000000"
	for i, a := range admins {
		w := uint64(repo.NormalAdminWeight)
		if i == 0 {
			w = repo.SuperAdminWeight
		}
		config.Genesis.Admins = append(config.Genesis.Admins, &repo.Admin{Address: a.addr.String(), Weight: w})
	}
	var nodes []*repo.NetworkNodes
	for i := 1; i <= 4; i++ {
		nodes = append(nodes, &repo.NetworkNodes{
			ID:      uint64(i),
			Pid:     "QmPrimaryNode" + string(rune('0'+i)),
			Account: zzNewAdmin(t).addr.String(),
		})
	}
	viewExec, err := executor.New(ldg, log.NewWithModule("executor"), &appchain.Client{}, config, big.NewInt(0))
	require.Nil(t, err)
	require.Nil(t, genesis.Initialize(&config.Genesis, nodes, 4, ldg, viewExec))

	exec, err := executor.New(ldg, log.NewWithModule("executor"), &appchain.Client{}, config, gasPrice)
	require.Nil(t, err)
	require.Nil(t, exec.Start())
	defer exec.Stop()

	blockCh := make(chan events.ExecutedEvent, 16)
	blockSub := exec.SubscribeBlockEvent(blockCh)
	defer blockSub.Unsubscribe()
	nodeCh := make(chan events.NodeEvent, 16) // what internal/app/feedhub.go listens to
	nodeSub := exec.SubscribeNodeEvent(nodeCh)
	defer nodeSub.Unsubscribe()

	height := uint64(1)
	run := func(txs ...pb.Transaction) []*pb.Receipt {
		height++
		header := &pb.BlockHeader{Number: height, Timestamp: time.Now().Unix()}
		block := &pb.Block{BlockHeader: header, Transactions: &pb.Transactions{Transactions: txs}}
		block.BlockHash = block.Hash()
		exec.ExecuteBlock(&pb.CommitEvent{Block: block, LocalList: make([]bool, len(txs))})
		select {
		case ev := <-blockCh:
			require.EqualValues(t, height, ev.Block.Height())
		case <-time.After(30 * time.Second):
			t.Fatalf("block %d was not executed", height)
		}
		var receipts []*pb.Receipt
		for _, tx := range txs {
			r, err := ldg.GetReceipt(tx.GetHash())
			require.Nil(t, err)
			receipts = append(receipts, r)
		}
		return receipts
	}
	requireSuccess := func(rs []*pb.Receipt) {
		for i, r := range rs {
			require.Equalf(t, pb.Receipt_SUCCESS, r.Status, "tx %d of block %d: %s", i, height, string(r.Ret))
		}
	}
	nodeStatus := func(account string) governance.GovernanceStatus {
		ok, data := ldg.GetState(constant.NodeManagerContractAddr.Address(), []byte(nodemgr.NodeKey(account)))
		require.True(t, ok)
		n := &nodemgr.Node{}
		require.Nil(t, json.Unmarshal(data, n))
		return n.Status
	}
	proposalStatus := func(id string) contracts.ProposalStatus {
		ok, data := ldg.GetState(constant.GovernanceContractAddr.Address(), []byte(contracts.ProposalKey(id)))
		require.True(t, ok)
		p := &contracts.Proposal{}
		require.Nil(t, json.Unmarshal(data, p))
		return p.Status
	}
	expectNodeEvent := func(typ governance.EventType, id uint64) {
		select {
		case ev := <-nodeCh:
			require.Equal(t, typ, ev.NodeEventType)
			require.Equal(t, id, ev.NodeId)
		case <-time.After(10 * time.Second):
			t.Fatalf("node event %s/%d was not delivered", typ, id)
		}
	}
	vote := func(a *zzAdmin, proposalID string) pb.Transaction {
		return a.invoke(t, constant.GovernanceContractAddr, "Vote", pb.String(proposalID), pb.String(contracts.BallotApprove), pb.String("ok"))
	}

	node5 := zzNewAdmin(t).addr.String()
	registerProposal := admins[0].addr.String() + "-0"
	logoutProposal := admins[0].addr.String() + "-1"

	// ---- block 2: vp node #5 joins ---------------------------------------------------------
	requireSuccess(run(
		admins[0].invoke(t, constant.NodeManagerContractAddr, "RegisterNode",
			pb.String(node5), pb.String(string(nodemgr.VPNode)), pb.String("QmNode5"), pb.Uint64(5),
			pb.String(""), pb.String(""), pb.String("join")),
		vote(admins[0], registerProposal),
		vote(admins[1], registerProposal),
		vote(admins[2], registerProposal),
	))
	require.Equal(t, governance.GovernanceAvailable, nodeStatus(node5))
	expectNodeEvent(governance.EventRegister, 5)

	// ---- block 3: logout of node #5 proposed, two of the three needed approvals ----------------
	requireSuccess(run(
		admins[0].invoke(t, constant.NodeManagerContractAddr, "LogoutNode", pb.String(node5), pb.String("leave")),
		vote(admins[0], logoutProposal),
		vote(admins[1], logoutProposal),
	))
	require.Equal(t, governance.GovernanceLogouting, nodeStatus(node5))
	require.Equal(t, contracts.PROPOSED, proposalStatus(logoutProposal))

	// ---- block 4: admin4 gives everything away (keeps exactly the fee of this transfer) --------
	transferFee := new(big.Int).Mul(big.NewInt(21000), gasPrice)
	sink := zzNewAdmin(t).addr
	requireSuccess(run(admins[3].transfer(t, sink, new(big.Int).Sub(ldg.GetBalance(admins[3].addr), transferFee))))
	voteFee := new(big.Int).Mul(big.NewInt(210000), gasPrice)
	require.True(t, ldg.GetBalance(admins[3].addr).Cmp(voteFee) < 0, "admin4 must not be able to pay for a vote")

	// ---- block 5: the deciding vote FAILS (fee unpayable) ---------------------------------------
	rs := run(vote(admins[3], logoutProposal))
	require.Equal(t, pb.Receipt_FAILED, rs[0].Status)
	require.Contains(t, string(rs[0].Ret), "insufficient balance")
	t.Logf("block 5: deciding vote: status=%s ret=%q", rs[0].Status, string(rs[0].Ret))
	for _, ev := range rs[0].Events {
		t.Logf("block 5: event carried by the FAILED receipt: %s", ev.EventType)
	}
	// the ledger is reverted: the node is still a (logouting) member, the proposal still open
	require.Equal(t, governance.GovernanceLogouting, nodeStatus(node5))
	require.Equal(t, contracts.PROPOSED, proposalStatus(logoutProposal))
	// (admin4 paid all it had left as the fee and, being an admin, got its quarter of it back)
	require.True(t, ldg.GetBalance(admins[3].addr).Cmp(voteFee) < 0)
	// ... so nothing may be told to the ordering / peer layer
	select {
	case ev := <-nodeCh:
		t.Errorf("C07 violated: FAILED vote tx %s delivered NodeEvent{type=%s, nodeId=%d} to the node feed "+
			"(feedhub -> Order.DelNode) while the ledger still has node %s in status %q and proposal %s in status %q",
			rs[0].TxHash.String(), ev.NodeEventType, ev.NodeId, node5, nodeStatus(node5), logoutProposal, proposalStatus(logoutProposal))
	case <-time.After(2 * time.Second):
	}

	// ---- block 6: funded again, the same vote SUCCEEDS: now (and only now) the event is due ------
	requireSuccess(run(
		admins[0].transfer(t, admins[3].addr, new(big.Int).Mul(big.NewInt(10), voteFee)),
		vote(admins[3], logoutProposal),
	))
	require.Equal(t, governance.GovernanceForbidden, nodeStatus(node5))
	require.Equal(t, contracts.APPROVED, proposalStatus(logoutProposal))
	expectNodeEvent(governance.EventLogout, 5)
	select {
	case ev := <-nodeCh:
		t.Errorf("unexpected additional NodeEvent{type=%s, nodeId=%d}", ev.NodeEventType, ev.NodeId)
	case <-time.After(500 * time.Millisecond):
	}
}
