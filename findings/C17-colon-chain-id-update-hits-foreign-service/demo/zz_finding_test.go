package executor_test

// Triage demo, item 3: ServiceManager.Manage re-parses the object id of an approved update proposal;
// with a chain id that contains ':' the update lands on the service of ANOTHER chain.
//
// Real simple ledger (leveldb), real genesis, real BlockExecutor; every step is a signed
// transaction in a block handed to BlockExecutor.ExecuteBlock (signature check, BoltVM, the
// real AppchainManager / RoleManager / Governance / RuleManager / ServiceManager contracts).
// No mocks.

import (
	"encoding/json"
	"fmt"
	"io/ioutil"
	"math/big"
	"os"
	"path/filepath"
	"testing"
	"time"

	"github.com/meshplus/bitxhub-core/governance"
	servicemgr "github.com/meshplus/bitxhub-core/service-mgr"
	"github.com/meshplus/bitxhub-core/validator"
	"github.com/meshplus/bitxhub-kit/crypto"
	"github.com/meshplus/bitxhub-kit/crypto/asym/ecdsa"
	"github.com/meshplus/bitxhub-kit/log"
	"github.com/meshplus/bitxhub-kit/storage/blockfile"
	"github.com/meshplus/bitxhub-kit/storage/leveldb"
	"github.com/meshplus/bitxhub-kit/types"
	"github.com/meshplus/bitxhub-model/constant"
	"github.com/meshplus/bitxhub-model/pb"
	"github.com/meshplus/bitxhub/internal/executor"
	"github.com/meshplus/bitxhub/internal/executor/contracts"
	"github.com/meshplus/bitxhub/internal/executor/oracle/appchain"
	"github.com/meshplus/bitxhub/internal/ledger"
	"github.com/meshplus/bitxhub/internal/ledger/genesis"
	"github.com/meshplus/bitxhub/internal/model/events"
	"github.com/meshplus/bitxhub/internal/repo"
	"github.com/stretchr/testify/require"
)

// ---------------------------------------------------------------- harness

type zzAccount struct {
	key  crypto.PrivateKey
	addr *types.Address
}

// deterministic secp256k1 key: 32 bytes, all equal to seed
func zzNewAccount(t *testing.T, seed byte) *zzAccount {
	raw := make([]byte, 32)
	for i := range raw {
		raw[i] = seed
	}
	key, err := ecdsa.UnmarshalPrivateKey(raw, crypto.Secp256k1)
	require.Nil(t, err)
	addr, err := key.PublicKey().Address()
	require.Nil(t, err)
	return &zzAccount{key: key, addr: addr}
}

type zzHub struct {
	t      *testing.T
	ldg    *ledger.Ledger
	exec   *executor.BlockExecutor
	blocks chan events.ExecutedEvent
	height uint64
	clock  int64
	nonces map[string]uint64
	admins []*zzAccount // governance admins, admins[0] is the super admin
}

func zzNewHub(t *testing.T, enableAudit bool) *zzHub {
	root, err := ioutil.TempDir("", "zz_finding")
	require.Nil(t, err)
	t.Cleanup(func() { _ = os.RemoveAll(root) })

	config, err := repo.DefaultConfig()
	require.Nil(t, err)
	config.RepoRoot = root
	config.Executor.Type = "serial"
	config.Executor.EnableAudit = enableAudit
	config.Ledger.Type = "simple"

	h := &zzHub{t: t, nonces: map[string]uint64{}, clock: 1600000000000000000}
	for i := 0; i < 4; i++ {
		a := zzNewAccount(t, byte(0x11+i))
		h.admins = append(h.admins, a)
		weight := uint64(repo.NormalAdminWeight)
		if i == 0 {
			weight = repo.SuperAdminWeight
		}
		config.Genesis.Admins = append(config.Genesis.Admins, &repo.Admin{Address: a.addr.String(), Weight: weight})
	}

	rep := &repo.Repo{
		Key:    &repo.Key{PrivKey: h.admins[0].key, Address: h.admins[0].addr.String()},
		Config: config,
	}

	chainStore, err := leveldb.New(filepath.Join(root, "storage"))
	require.Nil(t, err)
	stateStore, err := leveldb.New(filepath.Join(root, "ledger"))
	require.Nil(t, err)
	bf, err := blockfile.NewBlockFile(root, log.NewWithModule("blockfile"))
	require.Nil(t, err)
	h.ldg, err = ledger.New(rep, chainStore, stateStore, bf, nil, log.NewWithModule("ledger"))
	require.Nil(t, err)

	// the node does the same on first start (internal/app): genesis through a view executor
	viewExec, err := executor.New(h.ldg, log.NewWithModule("executor"), &appchain.Client{}, config, big.NewInt(0))
	require.Nil(t, err)
	require.Nil(t, genesis.Initialize(&config.Genesis, nil, 0, h.ldg, viewExec))

	h.exec, err = executor.New(h.ldg, log.NewWithModule("executor"), &appchain.Client{}, config, big.NewInt(0))
	require.Nil(t, err)
	require.Nil(t, h.exec.Start())
	t.Cleanup(func() { _ = h.exec.Stop() })

	h.blocks = make(chan events.ExecutedEvent, 16)
	sub := h.exec.SubscribeBlockEvent(h.blocks)
	t.Cleanup(sub.Unsubscribe)
	h.height = h.ldg.GetChainMeta().Height
	require.EqualValues(t, 1, h.height)
	return h
}

// invoke executes ONE signed BVM transaction in its own block and returns its receipt.
func (h *zzHub) invoke(from *zzAccount, contract constant.BoltContractAddress, method string, args ...*pb.Arg) *pb.Receipt {
	t := h.t
	payload, err := (&pb.InvokePayload{Method: method, Args: args}).Marshal()
	require.Nil(t, err)
	data, err := (&pb.TransactionData{Type: pb.TransactionData_INVOKE, VmType: pb.TransactionData_BVM, Payload: payload}).Marshal()
	require.Nil(t, err)

	h.clock += int64(time.Second)
	tx := &pb.BxhTransaction{
		From:      from.addr,
		To:        contract.Address(),
		Payload:   data,
		Timestamp: h.clock,
		Nonce:     h.nonces[from.addr.String()],
	}
	h.nonces[from.addr.String()]++
	require.Nil(t, tx.Sign(from.key))
	tx.TransactionHash = tx.Hash()

	h.height++
	block := &pb.Block{
		BlockHeader:  &pb.BlockHeader{Version: []byte("1.0.0"), Number: h.height, Timestamp: h.clock},
		Transactions: &pb.Transactions{Transactions: []pb.Transaction{tx}},
	}
	h.exec.ExecuteBlock(&pb.CommitEvent{Block: block})

	select {
	case ev := <-h.blocks:
		require.EqualValues(t, h.height, ev.Block.Height())
	case <-time.After(30 * time.Second):
		t.Fatalf("block %d was not executed", h.height)
	}
	receipt, err := h.ldg.GetReceipt(tx.TransactionHash)
	require.Nil(t, err)
	return receipt
}

func (h *zzHub) mustInvoke(from *zzAccount, contract constant.BoltContractAddress, method string, args ...*pb.Arg) *pb.Receipt {
	r := h.invoke(from, contract, method, args...)
	require.True(h.t, r.IsSuccess(), "%s by %s failed: %s", method, from.addr.String(), string(r.Ret))
	return r
}

func (h *zzHub) proposalID(r *pb.Receipt) string {
	gr := &governance.GovernanceResult{}
	require.Nil(h.t, json.Unmarshal(r.Ret, gr), string(r.Ret))
	require.NotEmpty(h.t, gr.ProposalID, string(r.Ret))
	return gr.ProposalID
}

func (h *zzHub) proposalStatus(id string) contracts.ProposalStatus {
	r := h.mustInvoke(h.admins[0], constant.GovernanceContractAddr, "GetProposal", pb.String(id))
	p := &contracts.Proposal{}
	require.Nil(h.t, json.Unmarshal(r.Ret, p))
	return p.Status
}

// conclude lets the governance admins vote (super admin first) until the proposal is over.
func (h *zzHub) conclude(id string, ballot string, want contracts.ProposalStatus) {
	for _, admin := range h.admins {
		if h.proposalStatus(id) != contracts.PROPOSED {
			break
		}
		h.mustInvoke(admin, constant.GovernanceContractAddr, "Vote", pb.String(id), pb.String(ballot), pb.String("vote"))
	}
	require.Equal(h.t, want, h.proposalStatus(id), "proposal %s", id)
}

func (h *zzHub) registerAppchain(from *zzAccount, chainID, name, adminAddrs string) *pb.Receipt {
	return h.invoke(from, constant.AppchainMgrContractAddr, "RegisterAppchain",
		pb.String(chainID), pb.String(name), pb.Bytes(nil), pb.String("ETH"), pb.Bytes(nil),
		pb.String("0x857133c5C69e6Ce66F7AD46F200B9B3573e77582"), pb.String("desc"),
		pb.String(validator.HappyRuleAddr), pb.String(""), pb.String(adminAddrs), pb.String("reason"))
}

func (h *zzHub) updateAppchain(from *zzAccount, chainID, name, desc, adminAddrs string) *pb.Receipt {
	return h.invoke(from, constant.AppchainMgrContractAddr, "UpdateAppchain",
		pb.String(chainID), pb.String(name), pb.String(desc), pb.Bytes(nil), pb.String(adminAddrs), pb.String("reason"))
}

// ---------------------------------------------------------------- the finding

func (h *zzHub) registerService(from *zzAccount, chainID, serviceID, name, permits string) *pb.Receipt {
	return h.invoke(from, constant.ServiceMgrContractAddr, "RegisterService",
		pb.String(chainID), pb.String(serviceID), pb.String(name), pb.String("CallContract"), pb.String("intro"),
		pb.Uint64(1), pb.String(permits), pb.String("details"), pb.String("reason"))
}

func (h *zzHub) serviceInfo(id string) (*servicemgr.Service, string) {
	r := h.invoke(h.admins[0], constant.ServiceMgrContractAddr, "GetServiceInfo", pb.String(id))
	if !r.IsSuccess() {
		return nil, string(r.Ret)
	}
	s := &servicemgr.Service{}
	require.Nil(h.t, json.Unmarshal(r.Ret, s))
	return s, string(r.Ret)
}

func TestZZFinding_Item3_ApprovedServiceUpdateLandsOnForeignService(t *testing.T) {
	for _, audit := range []bool{true, false} {
		audit := audit
		t.Run(fmt.Sprintf("audit=%v", audit), func(t *testing.T) {
			h := zzNewHub(t, audit)
			victim := zzNewAccount(t, 0x31)
			attacker := zzNewAccount(t, 0x32)

			// 1. the victim's chain "bank" with service "transfer" (chain-service id "bank:transfer"); the service
			//    refuses the callers on its blacklist (a service of another relay chain here)
			r := h.registerAppchain(victim, "bank", "bank chain", victim.addr.String())
			require.True(t, r.IsSuccess(), string(r.Ret))
			h.conclude(h.proposalID(r), contracts.BallotApprove, contracts.APPROVED)
			r = h.registerService(victim, "bank", "transfer", "bank transfer service", "9:rogue:caller")
			require.True(t, r.IsSuccess(), string(r.Ret))
			h.conclude(h.proposalID(r), contracts.BallotApprove, contracts.APPROVED)
			before, beforeRaw := h.serviceInfo("bank:transfer")
			require.NotNil(t, before, beforeRaw)
			require.Equal(t, governance.GovernanceAvailable, before.Status)
			t.Logf("victim service before: name=%q intro=%q details=%q permission=%v", before.Name, before.Intro, before.Details, before.Permission)

			// 2. the attacker's own chain: its id is "bank:transfer". Service "s" of it has chain-service id "bank:transfer:s"
			r = h.registerAppchain(attacker, "bank:transfer", "some other chain", attacker.addr.String())
			t.Logf("RegisterAppchain(id = \"bank:transfer\"): success=%v %s", r.IsSuccess(), string(r.Ret))
			attackerService := "bank:transfer:s"
			updateApproved := false
			if r.IsSuccess() {
				h.conclude(h.proposalID(r), contracts.BallotApprove, contracts.APPROVED)
				r = h.registerService(attacker, "bank:transfer", "s", "attacker service", "")
				t.Logf("RegisterService(chain \"bank:transfer\", service \"s\"): success=%v %s", r.IsSuccess(), string(r.Ret))
				if r.IsSuccess() {
					h.conclude(h.proposalID(r), contracts.BallotApprove, contracts.APPROVED)

					// 3. the attacker updates HIS service (permission check: admin of chain "bank:transfer" - passes, rightly);
					//    name / details change => proposal; the governance admins approve the update of "bank:transfer:s"
					r = h.invoke(attacker, constant.ServiceMgrContractAddr, "UpdateService",
						pb.String(attackerService), pb.String("renamed by the attacker"), pb.String("intro by the attacker"),
						pb.String(""), pb.String("details by the attacker"), pb.String("reason"))
					t.Logf("UpdateService(%q) by the attacker: success=%v %s", attackerService, r.IsSuccess(), string(r.Ret))
					if r.IsSuccess() {
						pid := h.proposalID(r)
						for _, admin := range h.admins {
							if h.proposalStatus(pid) != contracts.PROPOSED {
								break
							}
							v := h.invoke(admin, constant.GovernanceContractAddr, "Vote", pb.String(pid), pb.String(contracts.BallotApprove), pb.String("vote"))
							t.Logf("vote of %s: success=%v %s", admin.addr.String(), v.IsSuccess(), string(v.Ret))
						}
						updateApproved = h.proposalStatus(pid) == contracts.APPROVED
					}
				}
			}

			// 4. the victim never was asked, the attacker has no right on chain "bank"
			direct := h.invoke(attacker, constant.ServiceMgrContractAddr, "UpdateService",
				pb.String("bank:transfer"), pb.String("x"), pb.String("x"), pb.String(""), pb.String("x"), pb.String("reason"))
			require.False(t, direct.IsSuccess(), "the direct way is (rightly) closed")
			t.Logf("UpdateService(\"bank:transfer\") by the attacker directly: %s", string(direct.Ret))

			after, afterRaw := h.serviceInfo("bank:transfer")
			require.NotNil(t, after, afterRaw)
			t.Logf("victim service after:  name=%q intro=%q details=%q permission=%v", after.Name, after.Intro, after.Details, after.Permission)
			own, ownRaw := h.serviceInfo(attackerService)
			if own != nil {
				t.Logf("attacker service after: name=%q intro=%q details=%q status=%s", own.Name, own.Intro, own.Details, own.Status)
			} else {
				t.Logf("attacker service after: %s", ownRaw)
			}

			require.Equal(t, before.Name, after.Name, "the service of chain \"bank\" was renamed by the admin of another chain")
			require.Equal(t, before.Intro, after.Intro)
			require.Equal(t, before.Details, after.Details)
			require.Equal(t, before.Permission, after.Permission, "the blacklist of the service of chain \"bank\" was replaced by the admin of another chain")
			if updateApproved {
				// the approved update must have reached the service it was submitted (and checked) for
				require.NotNil(t, own, ownRaw)
				require.Equal(t, "renamed by the attacker", own.Name)
				require.Equal(t, "details by the attacker", own.Details)
				require.Equal(t, governance.GovernanceAvailable, own.Status)
			}
		})
	}
}
