package app

import (
	"crypto/rand"
	"io/ioutil"
	"testing"
	"time"

	p2pcrypto "github.com/libp2p/go-libp2p-core/crypto"
	"github.com/meshplus/bitxhub-kit/crypto"
	"github.com/meshplus/bitxhub-kit/crypto/asym"
	"github.com/meshplus/bitxhub-kit/types"
	"github.com/meshplus/bitxhub-model/constant"
	"github.com/meshplus/bitxhub-model/pb"
	"github.com/meshplus/bitxhub/internal/executor"
	"github.com/meshplus/bitxhub/internal/executor/contracts"
	"github.com/meshplus/bitxhub/internal/ledger"
	"github.com/meshplus/bitxhub/internal/loggers"
	"github.com/meshplus/bitxhub/internal/model/events"
	"github.com/meshplus/bitxhub/internal/repo"
	libp2pcert "github.com/meshplus/go-libp2p-cert"
	"github.com/stretchr/testify/require"
)

// Property C01: same genesis configuration + same ordered blocks => bit-identical results on
// every node, wherever the node was stopped and restarted in between.
//
// Production path: every node is built by the REAL app.GenerateBitXHubWithoutOrder (this package;
// `bitxhub start` -> app.NewBitXHub -> GenerateBitXHubWithoutOrder), which opens the stores, creates
// the ledgers and the view executor, calls genesis.Initialize when the chain height is 0 and creates
// the BlockExecutor on the same read/write ledger. The test then does what BitXHub.Start and the
// order module do: BlockExecutor.Start() and BlockExecutor.ExecuteBlock(commitEvent) for the
// blocks 2 and 3. Stop = BlockExecutor.Stop() + Ledger.Close() (BitXHub.Stop / process exit).
//
// Three nodes with the same genesis configuration execute the same block 2 (one transfer) and
// the same block 3 (ServiceRegistry.GetTokenPrice):
//
//	"A", "B": initialise genesis and keep running;
//	"R"     : initialises genesis, is stopped (ledger closed) and started again before block 2.
//	          On the second start Initialize is skipped because the chain height is 1.
//
// A and B agree (control). R must agree with them as well.

type findingNode struct {
	root string
	ldg  *ledger.Ledger
	exec executor.Executor
	ch   chan events.ExecutedEvent
}

func findingAdminKey(t *testing.T) (crypto.PrivateKey, *types.Address) {
	// generated once per test: every node of the test has the same genesis administrator
	privKey, err := asym.GenerateKeyPair(crypto.Secp256k1)
	require.Nil(t, err)
	addr, err := privKey.PublicKey().Address()
	require.Nil(t, err)
	return privKey, addr
}

func findingRepo(t *testing.T, root string, ledgerType string, nodeKey crypto.PrivateKey, admin *types.Address) *repo.Repo {
	config, err := repo.DefaultConfig()
	require.Nil(t, err)
	config.RepoRoot = root
	// the values of the shipped config/bitxhub.toml
	config.Ledger.Type = ledgerType
	config.Executor.Type = "serial"
	config.Executor.ProofType = "serial"
	config.Genesis.BvmGasPrice = 50000
	config.Genesis.Admins = []*repo.Admin{{Address: admin.String(), Weight: 2}}

	config.Cert.Verify = false
	loggers.Initialize(config)

	nodeAddr, err := nodeKey.PublicKey().Address()
	require.Nil(t, err)
	// the libp2p identity of the node (the peer manager is created by GenerateBitXHubWithoutOrder,
	// it is never started here)
	p2pKey, _, err := p2pcrypto.GenerateECDSAKeyPair(rand.Reader)
	require.Nil(t, err)
	return &repo.Repo{
		Config: config,
		Key:    &repo.Key{PrivKey: nodeKey, Address: nodeAddr.String(), Libp2pPrivKey: p2pKey},
		Certs:  &libp2pcert.Certs{},
		NetworkConfig: &repo.NetworkConfig{
			ID:        1,
			N:         1,
			LocalAddr: "/ip4/127.0.0.1/tcp/0",
			Nodes: []*repo.NetworkNodes{
				// a fixed Pid: it is part of the genesis state (node manager records)
				{ID: 1, Pid: "QmXi58fp9ZczF3Z5iz1yXAez3Hy5NYo1R8STHWKEM9XnTL", Account: admin.String(),
					Hosts: []string{"/ip4/127.0.0.1/tcp/4001/p2p/"}},
			},
		},
	}
}

// findingBoot = GenerateBitXHubWithoutOrder + BlockExecutor.Start
func findingBoot(t *testing.T, rep *repo.Repo) *findingNode {
	bxh, err := GenerateBitXHubWithoutOrder(rep)
	require.Nil(t, err)
	require.Nil(t, bxh.BlockExecutor.Start())

	n := &findingNode{root: rep.Config.RepoRoot, ldg: bxh.Ledger, exec: bxh.BlockExecutor, ch: make(chan events.ExecutedEvent, 4)}
	sub := bxh.BlockExecutor.SubscribeBlockEvent(n.ch)
	t.Cleanup(sub.Unsubscribe)
	return n
}

func (n *findingNode) shutdown(t *testing.T) {
	require.Nil(t, n.exec.Stop())
	n.ldg.Close()
}

func (n *findingNode) execute(t *testing.T, height uint64, txs []pb.Transaction) *pb.Block {
	block := &pb.Block{
		BlockHeader:  &pb.BlockHeader{Number: height, Timestamp: int64(height) * 1000},
		Transactions: &pb.Transactions{Transactions: txs},
	}
	block.BlockHash = block.Hash()
	n.exec.ExecuteBlock(&pb.CommitEvent{Block: block, LocalList: make([]bool, len(txs))})
	select {
	case ev := <-n.ch:
		require.Equal(t, height, ev.Block.Height())
		return ev.Block
	case <-time.After(30 * time.Second):
		t.Fatalf("block %d was not executed", height)
	}
	return nil
}

func findingTransfer(t *testing.T, key crypto.PrivateKey, from *types.Address, nonce uint64) pb.Transaction {
	data, err := (&pb.TransactionData{Type: pb.TransactionData_NORMAL, Amount: "1"}).Marshal()
	require.Nil(t, err)
	tx := &pb.BxhTransaction{
		From:      from,
		To:        types.NewAddressByStr("0x1000000000000000000000000000000000000001"),
		Timestamp: 1,
		Nonce:     nonce,
		Payload:   data,
		Amount:    "1",
	}
	require.Nil(t, tx.Sign(key))
	tx.TransactionHash = tx.Hash()
	return tx
}

func findingInvoke(t *testing.T, key crypto.PrivateKey, from *types.Address, nonce uint64, to *types.Address, method string) pb.Transaction {
	payload, err := (&pb.InvokePayload{Method: method}).Marshal()
	require.Nil(t, err)
	data, err := (&pb.TransactionData{Type: pb.TransactionData_INVOKE, VmType: pb.TransactionData_BVM, Payload: payload}).Marshal()
	require.Nil(t, err)
	tx := &pb.BxhTransaction{From: from, To: to, Timestamp: 2, Nonce: nonce, Payload: data}
	require.Nil(t, tx.Sign(key))
	tx.TransactionHash = tx.Hash()
	return tx
}

type findingResult struct {
	genesisHash, genesisRoot   string
	b2Hash, b2Root, b2Receipts string
	b3Hash, b3Root, b3Receipts string
	tokenPriceStatus           pb.Receipt_Status
	tokenPriceRet              string
	bnsStateOnDisk             bool // ServiceRegistry "tokenPrice" present after a fresh reopen at the end
}

func findingRun(t *testing.T, name string, ledgerType string, restartAfterGenesis bool, adminKey crypto.PrivateKey, admin *types.Address, nodeKey crypto.PrivateKey) findingResult {
	root, err := ioutil.TempDir("", "finding-c01-"+name)
	require.Nil(t, err)
	rep := findingRepo(t, root, ledgerType, nodeKey, admin)

	n := findingBoot(t, rep) // first start: genesis is initialised
	if restartAfterGenesis {
		n.shutdown(t)
		n = findingBoot(t, rep) // second start: height is 1, Initialize is skipped
	}

	var res findingResult
	g, err := n.ldg.GetBlock(1, false)
	require.Nil(t, err)
	res.genesisHash, res.genesisRoot = g.BlockHash.String(), g.BlockHeader.StateRoot.String()

	b2 := n.execute(t, 2, []pb.Transaction{findingTransfer(t, adminKey, admin, 0)})
	res.b2Hash, res.b2Root, res.b2Receipts = b2.BlockHash.String(), b2.BlockHeader.StateRoot.String(), b2.BlockHeader.ReceiptRoot.String()

	query := findingInvoke(t, adminKey, admin, 1, constant.ServiceRegistryContractAddr.Address(), "GetTokenPrice")
	b3 := n.execute(t, 3, []pb.Transaction{query})
	res.b3Hash, res.b3Root, res.b3Receipts = b3.BlockHash.String(), b3.BlockHeader.StateRoot.String(), b3.BlockHeader.ReceiptRoot.String()
	receipt, err := n.ldg.GetReceipt(query.GetHash())
	require.Nil(t, err)
	res.tokenPriceStatus, res.tokenPriceRet = receipt.Status, string(receipt.Ret)

	// what a node that starts from this store from now on will see
	n.shutdown(t)
	n = findingBoot(t, rep)
	res.bnsStateOnDisk, _ = n.ldg.GetState(constant.ServiceRegistryContractAddr.Address(), []byte(contracts.BitxhubTokenPrice))
	n.shutdown(t)
	return res
}

// ledger type "simple" is what the shipped config/bitxhub.toml selects
func TestFindingC01_RestartBetweenGenesisAndBlock2(t *testing.T) {
	findingRestartBetweenGenesisAndBlock2(t, ledger.SimpleLedgerTyp)
}

// ledger type "complex" (the value of repo.DefaultConfig)
func TestFindingC01_RestartBetweenGenesisAndBlock2_ComplexLedger(t *testing.T) {
	findingRestartBetweenGenesisAndBlock2(t, ledger.ComplexLedgerTyp)
}

func findingRestartBetweenGenesisAndBlock2(t *testing.T, ledgerType string) {
	adminKey, admin := findingAdminKey(t)
	nodeKey, _ := findingAdminKey(t)

	a := findingRun(t, "A", ledgerType, false, adminKey, admin, nodeKey)
	b := findingRun(t, "B", ledgerType, false, adminKey, admin, nodeKey)
	r := findingRun(t, "R", ledgerType, true, adminKey, admin, nodeKey)

	// control: two uninterrupted nodes agree on everything
	require.Equal(t, a, b, "two uninterrupted nodes disagree: the test set-up itself is not deterministic")
	require.Equal(t, pb.Receipt_SUCCESS, a.tokenPriceStatus, "GetTokenPrice failed on the uninterrupted node: %s", a.tokenPriceRet)

	// the genesis block itself is the same on the restarted node
	require.Equal(t, a.genesisHash, r.genesisHash)
	require.Equal(t, a.genesisRoot, r.genesisRoot)

	if a.b2Root != r.b2Root {
		t.Errorf("block 2 state root: %s (kept running) vs %s (restarted after genesis)", a.b2Root, r.b2Root)
	}
	if a.b2Hash != r.b2Hash {
		t.Errorf("block 2 hash: %s (kept running) vs %s (restarted after genesis)", a.b2Hash, r.b2Hash)
	}
	if a.b2Receipts != r.b2Receipts {
		t.Errorf("block 2 receipt root: %s vs %s", a.b2Receipts, r.b2Receipts)
	}
	if a.tokenPriceStatus != r.tokenPriceStatus || a.tokenPriceRet != r.tokenPriceRet {
		t.Errorf("block 3 ServiceRegistry.GetTokenPrice receipt: %v %x (kept running) vs %v %q (restarted after genesis)",
			a.tokenPriceStatus, a.tokenPriceRet, r.tokenPriceStatus, r.tokenPriceRet)
	}
	if a.b3Receipts != r.b3Receipts {
		t.Errorf("block 3 receipt root: %s vs %s", a.b3Receipts, r.b3Receipts)
	}
	if a.b3Root != r.b3Root {
		t.Errorf("block 3 state root: %s vs %s", a.b3Root, r.b3Root)
	}
	if a.bnsStateOnDisk != r.bnsStateOnDisk {
		t.Errorf("ServiceRegistry %q in the state store after block 3: %v (kept running) vs %v (restarted after genesis)",
			contracts.BitxhubTokenPrice, a.bnsStateOnDisk, r.bnsStateOnDisk)
	}
}
