package ledger

import (
	"encoding/hex"
	"encoding/json"
	"math/big"
	"strings"
	"testing"

	"github.com/ethereum/go-ethereum/common"
	crypto1 "github.com/ethereum/go-ethereum/crypto"
	"github.com/meshplus/bitxhub-kit/bytesutil"
	"github.com/meshplus/bitxhub-kit/types"
	"github.com/stretchr/testify/require"
)

// C12, item 1 of NOTES.md: the block journal is stored with encoding/json and the previous values of the changed
// storage keys are a map[string][]byte keyed by the RAW key bytes. encoding/json replaces every byte of a map key
// that is not valid UTF-8 by U+FFFD, so the journal read back names other keys than the ones that were written and
// revertJournal restores / deletes those other keys.
//
// Production path (ledger type "simple", the type of config/bitxhub.toml):
//   EVM transaction -> SSTORE (eth-kit evm/instructions.go opSstore) -> StateDB.SetEVMState
//   -> SimpleLedger.SetEVMState -> SetState(addr, key.Bytes(), ...)          32 arbitrary key bytes
//   -> FlushDirtyData (getStateJournalAndComputeHash: PrevStates[string(key)]) -> PersistBlockData -> Commit
//      (json.Marshal of the BlockJournal)
//   -> Ledger.Rollback, called by  (a) executor rollbackBlocks (handle.go:93) when consensus delivers another block
//      for a height that was already executed, and (b) ledger.New at every start (ledger.go:80), which reverts the
//      state of a block whose state commit was durable but whose chain commit was not (crash inside PersistBlockData).
//
// The slot used here is what solidity computes for `mapping(address => uint) balances` at slot 0:
// keccak256(pad32(holder) ++ pad32(0)); any keccak output is, for all practical purposes, not valid UTF-8.

var (
	zzContract = common.BytesToAddress(bytesutil.LeftPadBytes([]byte{0xc0, 0x01}, 20))
	zzHolder1  = common.BytesToAddress(bytesutil.LeftPadBytes([]byte{0xaa}, 20))
	zzHolder2  = common.BytesToAddress(bytesutil.LeftPadBytes([]byte{0xbb}, 20))
)

func zzMappingSlot(holder common.Address) common.Hash {
	return crypto1.Keccak256Hash(common.LeftPadBytes(holder.Bytes(), 32), common.LeftPadBytes(nil, 32))
}

func zzWord(v int64) common.Hash { return common.BigToHash(big.NewInt(v)) }

// zzStorageDump returns every storage record of the contract as it is in the state database (hex key -> hex value).
func zzStorageDump(l *Ledger) map[string]string {
	dump := make(map[string]string)
	addr := types.NewAddress(zzContract.Bytes())
	begin, end := bytesPrefix(addr.Bytes())
	it := l.StateLedger.(*SimpleLedger).ldb.Iterator(begin, end)
	for it.Next() {
		dump[hex.EncodeToString(it.Key()[len(addr.Bytes()):])] = hex.EncodeToString(it.Value())
	}
	return dump
}

// block 1: deployment (nonce + code) and balances[holder1] = 100
func zzBlock1(l *Ledger) {
	l.PrepareBlock(nil, 1)
	l.SetNonce(types.NewAddress(zzContract.Bytes()), 1)
	l.SetCode(types.NewAddress(zzContract.Bytes()), []byte{0x60, 0x80, 0x60, 0x40})
	l.SetEVMState(zzContract, zzMappingSlot(zzHolder1), zzWord(100))
	accounts, root := l.FlushDirtyData()
	l.PersistBlockData(genBlockData(1, accounts, root))
}

// block 2: a transfer: balances[holder1] = 60 (overwrite), balances[holder2] = 40 (key first written in this block)
func zzExecBlock2(l *Ledger) *BlockData {
	l.PrepareBlock(nil, 2)
	l.SetEVMState(zzContract, zzMappingSlot(zzHolder1), zzWord(60))
	l.SetEVMState(zzContract, zzMappingSlot(zzHolder2), zzWord(40))
	accounts, root := l.FlushDirtyData()
	return genBlockData(2, accounts, root)
}

func zzRequireStateOfBlock1(t *testing.T, l *Ledger, dump1 map[string]string) {
	require.Equal(t, zzWord(100), l.GetEVMState(zzContract, zzMappingSlot(zzHolder1)),
		"balances[holder1] after the rollback to height 1 (100 at height 1, 60 in the rolled-back block)")
	require.Equal(t, common.Hash{}, l.GetEVMState(zzContract, zzMappingSlot(zzHolder2)),
		"balances[holder2] after the rollback to height 1 (first written in the rolled-back block)")
	require.Equal(t, dump1, zzStorageDump(l), "storage records of the contract, dump at height 1 vs. after the rollback")
}

// (a) the executor path: a committed block is rolled back because consensus delivered another block for its height.
func TestFindingC12_EVMStorageSlotNotRestoredByRollback(t *testing.T) {
	ldg, _ := initLedger(t, "")
	zzBlock1(ldg)
	dump1 := zzStorageDump(ldg)
	require.Len(t, dump1, 1)

	ldg.PersistBlockData(zzExecBlock2(ldg))
	require.Equal(t, zzWord(60), ldg.GetEVMState(zzContract, zzMappingSlot(zzHolder1)))
	require.Equal(t, zzWord(40), ldg.GetEVMState(zzContract, zzMappingSlot(zzHolder2)))

	require.Nil(t, ldg.Rollback(1))
	require.Equal(t, uint64(1), ldg.GetChainMeta().Height)

	zzRequireStateOfBlock1(t, ldg, dump1)
}

// (b) the start-up path: the node dies inside PersistBlockData after the state commit of block 2 and before the
// chain commit; ledger.New then rolls the state ledger back to the chain height.
func TestFindingC12_EVMStorageSlotNotRestoredByStartUpRollback(t *testing.T) {
	ldg, repoRoot := initLedger(t, "")
	zzBlock1(ldg)
	dump1 := zzStorageDump(ldg)

	data := zzExecBlock2(ldg)
	require.Nil(t, ldg.StateLedger.Commit(2, data.Accounts, data.Block.BlockHeader.StateRoot))
	// crash: PersistExecutionResult of block 2 never happens
	ldg.Close()

	ldg, _ = initLedger(t, repoRoot)
	require.Equal(t, uint64(1), ldg.GetChainMeta().Height)
	require.Equal(t, uint64(1), ldg.Version())

	zzRequireStateOfBlock1(t, ldg, dump1)
}

// Compatibility: a journal as the unrepaired code wrote it (all keys valid UTF-8, no additional field) is still read
// and reverted, and a journal whose keys are all valid UTF-8 is still written byte for byte in that form.
func TestFindingC12_LegacyJournalStaysReadable(t *testing.T) {
	ldg, _ := initLedger(t, "")
	sl := ldg.StateLedger.(*SimpleLedger)
	addr := types.NewAddress(bytesutil.LeftPadBytes([]byte{0x77}, 20))

	ldg.PrepareBlock(nil, 1)
	ldg.SetState(addr, []byte("tx-1"), []byte("v1"), nil)
	accounts, root := ldg.FlushDirtyData()
	ldg.PersistBlockData(genBlockData(1, accounts, root))

	ldg.PrepareBlock(nil, 2)
	ldg.SetState(addr, []byte("tx-1"), []byte("v2"), nil)
	ldg.SetState(addr, []byte("tx-2"), []byte("w"), nil)
	accounts, root = ldg.FlushDirtyData()
	ldg.PersistBlockData(genBlockData(2, accounts, root))

	// the journal of block 2 in the format of the unrepaired code, written by hand
	rootJSON, err := json.Marshal(root)
	require.Nil(t, err)
	addrJSON, err := json.Marshal(addr)
	require.Nil(t, err)
	legacy := `{"Journals":[{"Address":` + string(addrJSON) + `,"PrevAccount":null,"AccountChanged":false,` +
		`"PrevStates":{"tx-1":"djE=","tx-2":null},"PrevCode":null,"CodeChanged":false}],"ChangedHash":` + string(rootJSON) + `}`
	stored := sl.ldb.Get(compositeKey(journalKey, 2))
	require.Equal(t, legacy, string(stored), "a journal without non-UTF-8 keys keeps the stored form of the unrepaired code")
	require.False(t, strings.Contains(string(stored), "Hex"))
	sl.ldb.Put(compositeKey(journalKey, 2), []byte(legacy))

	require.Nil(t, ldg.Rollback(1))
	ok, val := ldg.GetState(addr, []byte("tx-1"))
	require.True(t, ok)
	require.Equal(t, []byte("v1"), val)
	ok, _ = ldg.GetState(addr, []byte("tx-2"))
	require.False(t, ok)
}

// Writer and reader of the stored journal agree on every key: whatever byte string is a key of PrevStates when the
// journal is marshalled is a key of PrevStates, with the same value (nil = "absent before"), when it is read back.
func TestFindingC12_JournalKeyRoundTrip(t *testing.T) {
	keys := []string{
		"", "plain", "tx-é世", "�", "a <b>&", "\x00\x01",
		"\xff", "\xff\xfe\x01", "ok\xc3", "\xed\xa0\x80", "\xef\xbf", string(zzMappingSlot(zzHolder1).Bytes()), string(make([]byte, 32)),
	}
	entry := &blockJournalEntry{Address: types.NewAddress(zzContract.Bytes()), PrevStates: map[string][]byte{}}
	for i, key := range keys {
		switch i % 3 {
		case 0:
			entry.PrevStates[key] = nil
		case 1:
			entry.PrevStates[key] = []byte{}
		default:
			entry.PrevStates[key] = []byte{byte(i), 0xff}
		}
	}
	data, err := json.Marshal(&BlockJournal{Journals: []*blockJournalEntry{entry}, ChangedHash: &types.Hash{}})
	require.Nil(t, err)
	back := &BlockJournal{}
	require.Nil(t, json.Unmarshal(data, back))
	require.Len(t, back.Journals, 1)
	require.Equal(t, len(keys), len(back.Journals[0].PrevStates))
	for key, val := range entry.PrevStates {
		got, ok := back.Journals[0].PrevStates[key]
		require.True(t, ok, "key %x lost", key)
		require.Equal(t, val == nil, got == nil, "key %x", key)
		require.True(t, string(val) == string(got), "key %x", key)
	}
}
