package executor_test

// Demonstration for C06 / item 1: an appchain id that contains '-' silences ALL timeout
// notifications of the block in which its request times out.
//
// Nothing is mocked: a real ledger (leveldb + blockfile), the genesis state written by
// genesis.Initialize, the real BlockExecutor with the real bolt contracts. The appchains,
// their rules and their services are registered through the contracts (RegisterAppchain /
// RegisterService + votes of the genesis admins), the requests go through
// InterchainManager.HandleIBTP with a proof checked by the real proof pool.

import (
	"crypto/sha256"
	"encoding/json"
	"fmt"
	"io/ioutil"
	"math/big"
	"os"
	"path/filepath"
	"testing"
	"time"

	appchainMgr "github.com/meshplus/bitxhub-core/appchain-mgr"
	"github.com/meshplus/bitxhub-core/governance"
	service_mgr "github.com/meshplus/bitxhub-core/service-mgr"
	"github.com/meshplus/bitxhub-core/validator"
	"github.com/meshplus/bitxhub-kit/crypto"
	"github.com/meshplus/bitxhub-kit/crypto/asym"
	"github.com/meshplus/bitxhub-kit/log"
	"github.com/meshplus/bitxhub-kit/storage/blockfile"
	"github.com/meshplus/bitxhub-kit/storage/leveldb"
	"github.com/meshplus/bitxhub-kit/types"
	"github.com/meshplus/bitxhub-model/constant"
	"github.com/meshplus/bitxhub-model/pb"
	"github.com/meshplus/bitxhub/internal/executor"
	"github.com/meshplus/bitxhub/internal/executor/contracts"
	"github.com/meshplus/bitxhub/internal/executor/oracle/appchain"
	"github.com/meshplus/bitxhub/internal/ledger"
	"github.com/meshplus/bitxhub/internal/ledger/genesis"
	"github.com/meshplus/bitxhub/internal/model/events"
	"github.com/meshplus/bitxhub/internal/repo"
	"github.com/stretchr/testify/assert"
	"github.com/stretchr/testify/require"
)

type findingHub struct {
	t      *testing.T
	ldg    *ledger.Ledger
	exec   *executor.BlockExecutor
	ch     chan events.ExecutedEvent
	height uint64
	admins []crypto.PrivateKey
	nonces map[string]uint64
}

func newFindingHub(t *testing.T) *findingHub {
	root, err := ioutil.TempDir("", "finding")
	require.Nil(t, err)
	t.Cleanup(func() { _ = os.RemoveAll(root) })

	config, err := repo.DefaultConfig()
	require.Nil(t, err)
	h := &findingHub{t: t, nonces: map[string]uint64{}, height: 1}
	for i := 0; i < 4; i++ {
		k, err := asym.GenerateKeyPair(crypto.Secp256k1)
		require.Nil(t, err)
		addr, err := k.PublicKey().Address()
		require.Nil(t, err)
		h.admins = append(h.admins, k)
		config.Genesis.Admins = append(config.Genesis.Admins, &repo.Admin{Address: addr.String(), Weight: 2})
	}

	nodeKey, err := asym.GenerateKeyPair(crypto.Secp256k1)
	require.Nil(t, err)
	nodeAddr, err := nodeKey.PublicKey().Address()
	require.Nil(t, err)
	rep := &repo.Repo{Key: &repo.Key{PrivKey: nodeKey, Address: nodeAddr.String()}, Config: &repo.Config{}}
	rep.Config.Executor.Type = "serial"

	blockchainStorage, err := leveldb.New(filepath.Join(root, "storage"))
	require.Nil(t, err)
	ldb, err := leveldb.New(filepath.Join(root, "ledger"))
	require.Nil(t, err)
	accountCache, err := ledger.NewAccountCache()
	require.Nil(t, err)
	blockFile, err := blockfile.NewBlockFile(root, log.NewWithModule("blockfile"))
	require.Nil(t, err)
	h.ldg, err = ledger.New(rep, blockchainStorage, ldb, blockFile, accountCache, log.NewWithModule("ledger"))
	require.Nil(t, err)

	// the genesis block, exactly as the node writes it
	viewExec, err := executor.New(h.ldg, log.NewWithModule("executor"), &appchain.Client{}, config, big.NewInt(0))
	require.Nil(t, err)
	require.Nil(t, genesis.Initialize(&config.Genesis, nil, 0, h.ldg, viewExec))

	h.exec, err = executor.New(h.ldg, log.NewWithModule("executor"), &appchain.Client{}, config, big.NewInt(0))
	require.Nil(t, err)
	require.Nil(t, h.exec.Start())
	t.Cleanup(func() { _ = h.exec.Stop() })
	h.ch = make(chan events.ExecutedEvent, 1)
	sub := h.exec.SubscribeBlockEvent(h.ch)
	t.Cleanup(sub.Unsubscribe)
	return h
}

// block lets the executor execute the next block and returns what it published for it.
func (h *findingHub) block(txs ...pb.Transaction) events.ExecutedEvent {
	h.height++
	block := &pb.Block{
		BlockHeader:  &pb.BlockHeader{Number: h.height, Timestamp: time.Now().Unix()},
		Transactions: &pb.Transactions{Transactions: txs},
	}
	block.BlockHash = block.Hash()
	h.exec.ExecuteBlock(&pb.CommitEvent{Block: block, LocalList: make([]bool, len(txs))})
	select {
	case ev := <-h.ch:
		require.EqualValues(h.t, h.height, ev.Block.Height())
		return ev
	case <-time.After(30 * time.Second):
		h.t.Fatalf("block %d was not executed", h.height)
	}
	return events.ExecutedEvent{}
}

func (h *findingHub) receipt(tx pb.Transaction) *pb.Receipt {
	r, err := h.ldg.GetReceipt(tx.GetHash())
	require.Nil(h.t, err)
	return r
}

func (h *findingHub) sign(key crypto.PrivateKey, tx *pb.BxhTransaction) pb.Transaction {
	from, err := key.PublicKey().Address()
	require.Nil(h.t, err)
	tx.From = from
	tx.Timestamp = time.Now().UnixNano()
	tx.Nonce = h.nonces[from.String()]
	h.nonces[from.String()]++
	require.Nil(h.t, tx.Sign(key))
	tx.TransactionHash = tx.Hash()
	return tx
}

func (h *findingHub) invoke(key crypto.PrivateKey, to constant.BoltContractAddress, method string, args ...*pb.Arg) pb.Transaction {
	pl, err := (&pb.InvokePayload{Method: method, Args: args}).Marshal()
	require.Nil(h.t, err)
	td, err := (&pb.TransactionData{Type: pb.TransactionData_INVOKE, VmType: pb.TransactionData_BVM, Payload: pl}).Marshal()
	require.Nil(h.t, err)
	return h.sign(key, &pb.BxhTransaction{To: to.Address(), Payload: td})
}

// approve lets three genesis admins vote for the proposal named in the governance result of tx.
func (h *findingHub) approve(tx pb.Transaction) {
	r := h.receipt(tx)
	require.True(h.t, r.IsSuccess(), string(r.Ret))
	res := &governance.GovernanceResult{}
	require.Nil(h.t, json.Unmarshal(r.Ret, res))
	var votes []pb.Transaction
	for _, admin := range h.admins[:3] {
		votes = append(votes, h.invoke(admin, constant.GovernanceContractAddr, "Vote",
			pb.String(res.ProposalID), pb.String(string(contracts.APPROVED)), pb.String("reason")))
	}
	h.block(votes...)
	for _, v := range votes {
		r := h.receipt(v)
		require.True(h.t, r.IsSuccess(), string(r.Ret))
	}
}

// registerChain registers appchain chainID (rule: the built-in "happy" rule) with one service,
// through the appchain manager / service manager contracts and the votes of the admins.
func (h *findingHub) registerChain(chainID string, serviceIDs ...string) crypto.PrivateKey {
	key, err := asym.GenerateKeyPair(crypto.Secp256k1)
	require.Nil(h.t, err)
	addr, err := key.PublicKey().Address()
	require.Nil(h.t, err)

	reg := h.invoke(key, constant.AppchainMgrContractAddr, "RegisterAppchain",
		pb.String(chainID), pb.String("name of "+chainID), pb.Bytes(nil), pb.String(appchainMgr.ChainTypeETH),
		pb.Bytes(nil), pb.String("broker"), pb.String("desc"), pb.String(validator.HappyRuleAddr), pb.String("url"),
		pb.String(addr.String()), pb.String("reason"))
	h.block(reg)
	h.approve(reg)

	chain := &appchainMgr.Appchain{}
	ok, data := h.ldg.GetState(constant.AppchainMgrContractAddr.Address(), []byte(appchainMgr.AppchainKey(chainID)))
	require.True(h.t, ok, "appchain %s is not stored", chainID)
	require.Nil(h.t, json.Unmarshal(data, chain))
	require.Equal(h.t, governance.GovernanceAvailable, chain.Status, "appchain %s", chainID)

	for _, serviceID := range serviceIDs {
		svc := h.invoke(key, constant.ServiceMgrContractAddr, "RegisterService",
			pb.String(chainID), pb.String(serviceID), pb.String("service "+serviceID+" of "+chainID), pb.String(string(service_mgr.ServiceCallContract)),
			pb.String("intro"), pb.Uint64(1), pb.String(""), pb.String("details"), pb.String("reason"))
		h.block(svc)
		h.approve(svc)
	}
	return key
}

func (h *findingHub) request(key crypto.PrivateKey, from, to string, index uint64, timeout int64) pb.Transaction {
	return h.ibtp(key, &pb.IBTP{From: from, To: to, Index: index, TimeoutHeight: timeout, Type: pb.IBTP_INTERCHAIN})
}

func (h *findingHub) ibtp(key crypto.PrivateKey, ibtp *pb.IBTP) pb.Transaction {
	proof := []byte("true")
	proofHash := sha256.Sum256(proof)
	ibtp.Proof = proofHash[:]
	data, err := ibtp.Marshal()
	require.Nil(h.t, err)
	pl, err := (&pb.InvokePayload{Method: "HandleIBTP", Args: []*pb.Arg{pb.Bytes(data)}}).Marshal()
	require.Nil(h.t, err)
	td, err := (&pb.TransactionData{Type: pb.TransactionData_INVOKE, VmType: pb.TransactionData_BVM, Payload: pl}).Marshal()
	require.Nil(h.t, err)
	return h.sign(key, &pb.BxhTransaction{To: constant.InterchainContractAddr.Address(), Payload: td, IBTP: ibtp, Extra: proof})
}

func (h *findingHub) status(id string) pb.TransactionStatus {
	ok, val := h.ldg.GetState(constant.TransactionMgrContractAddr.Address(), []byte(contracts.TxInfoKey(id)))
	require.True(h.t, ok, "no transaction record of %s", id)
	record := pb.TransactionRecord{}
	require.Nil(h.t, record.Unmarshal(val))
	return record.Status
}

func listed(meta *pb.InterchainMeta, chain, id string) int {
	n := 0
	if list, ok := meta.TimeoutCounter[chain]; ok {
		for _, v := range list.Slice {
			if v == id {
				n++
			}
		}
	}
	return n
}

func TestFindingDashInAppchainIDSilencesTimeoutNotifications(t *testing.T) {
	h := newFindingHub(t)

	const svc = "0xB2dD6977169c5067d3729E3deB9a82c3e7502BF1"
	keyDash := h.registerChain("chain-0", svc) // a legal appchain id: RegisterAppchain accepted it
	keyPlain := h.registerChain("chain0", svc)
	h.registerChain("chain1", svc)

	fromDash := "1:chain-0:" + svc
	fromPlain := "1:chain0:" + svc
	to := "1:chain1:" + svc

	// block H: request A of chain-0 and the ordinary request B of chain0 are accepted, both with T=1
	a := h.request(keyDash, fromDash, to, 1, 1)
	b := h.request(keyPlain, fromPlain, to, 1, 1)
	h.block(a, b)
	for _, tx := range []pb.Transaction{a, b} {
		r := h.receipt(tx)
		require.True(t, r.IsSuccess(), string(r.Ret))
	}
	idA := fmt.Sprintf("%s-%s-1", fromDash, to)
	idB := fmt.Sprintf("%s-%s-1", fromPlain, to)
	require.Equal(t, pb.TransactionStatus_BEGIN, h.status(idA))
	require.Equal(t, pb.TransactionStatus_BEGIN, h.status(idB))

	// block H+T: no receipt has arrived
	ev := h.block()
	meta := ev.InterchainMeta
	t.Logf("block %d: TimeoutCounter=%v TimeoutRoot=%s status(A)=%s status(B)=%s",
		ev.Block.Height(), meta.TimeoutCounter, ev.Block.BlockHeader.TimeoutRoot, h.status(idA), h.status(idB))

	// both records are moved to BEGIN_ROLLBACK in block H+T ...
	assert.Equal(t, pb.TransactionStatus_BEGIN_ROLLBACK, h.status(idA))
	assert.Equal(t, pb.TransactionStatus_BEGIN_ROLLBACK, h.status(idB))
	// ... so each has to be listed once in that block's timeout notifications for its source chain
	assert.Equal(t, 1, listed(meta, "chain0", idB), "ordinary request B is not announced to chain0: %v", meta.TimeoutCounter)
	assert.Equal(t, 1, listed(meta, "chain-0", idA), "request A is not announced to chain-0: %v", meta.TimeoutCounter)
	assert.Len(t, meta.TimeoutCounter, 2)
	assert.Len(t, meta.TimeoutL2Roots, 2)
	assert.NotEqual(t, (&types.Hash{}).String(), ev.Block.BlockHeader.TimeoutRoot.String(), "timeout root of block H+T is empty")

	// the next block announces nothing again
	ev = h.block()
	require.Len(t, ev.InterchainMeta.TimeoutCounter, 0)
}

// The same for a one-to-many group whose source service id contains '-': the destination chain of a
// child that has already succeeded has to be told to roll back when the group times out.
func TestFindingDashInServiceIDSilencesGroupTimeoutNotifications(t *testing.T) {
	h := newFindingHub(t)

	const svc = "0xB2dD6977169c5067d3729E3deB9a82c3e7502BF1"
	keySrc := h.registerChain("chain0", "svc-a") // a legal service id: RegisterService accepted it
	keyDst1 := h.registerChain("chain1", svc)
	h.registerChain("chain2", svc)

	from := "1:chain0:svc-a"
	to1 := "1:chain1:" + svc
	to2 := "1:chain2:" + svc
	group := &pb.StringUint64Map{Keys: []string{to1, to2}, Vals: []uint64{1, 1}}

	// block H: both children of the group are accepted, T=2
	c1 := h.ibtp(keySrc, &pb.IBTP{From: from, To: to1, Index: 1, TimeoutHeight: 2, Type: pb.IBTP_INTERCHAIN, Group: group})
	c2 := h.ibtp(keySrc, &pb.IBTP{From: from, To: to2, Index: 1, TimeoutHeight: 2, Type: pb.IBTP_INTERCHAIN, Group: group})
	h.block(c1, c2)
	for _, tx := range []pb.Transaction{c1, c2} {
		r := h.receipt(tx)
		require.True(t, r.IsSuccess(), string(r.Ret))
	}
	id1 := fmt.Sprintf("%s-%s-1", from, to1)
	id2 := fmt.Sprintf("%s-%s-1", from, to2)

	// block H+1: child 1 succeeds on chain1, child 2 gets no receipt
	rc := h.ibtp(keyDst1, &pb.IBTP{From: from, To: to1, Index: 1, Type: pb.IBTP_RECEIPT_SUCCESS})
	ev := h.block(rc)
	r := h.receipt(rc)
	require.True(t, r.IsSuccess(), string(r.Ret))
	require.Len(t, ev.InterchainMeta.TimeoutCounter, 0)

	// block H+T: the group times out as a whole
	ev = h.block()
	meta := ev.InterchainMeta
	t.Logf("block %d: TimeoutCounter=%v TimeoutRoot=%s", ev.Block.Height(), meta.TimeoutCounter, ev.Block.BlockHeader.TimeoutRoot)

	ok, gid := h.ldg.GetState(constant.TransactionMgrContractAddr.Address(), []byte(id1))
	require.True(t, ok)
	ok, val := h.ldg.GetState(constant.TransactionMgrContractAddr.Address(), []byte(contracts.GlobalTxInfoKey(string(gid))))
	require.True(t, ok)
	info := contracts.TransactionInfo{}
	require.Nil(t, json.Unmarshal(val, &info))
	require.Equal(t, pb.TransactionStatus_BEGIN_ROLLBACK, info.GlobalState)

	// the source chain is told about both children, chain1 about the child it has already executed
	assert.Equal(t, 1, listed(meta, "chain0", id1), "child 1 is not announced to the source chain: %v", meta.TimeoutCounter)
	assert.Equal(t, 1, listed(meta, "chain0", id2), "child 2 is not announced to the source chain: %v", meta.TimeoutCounter)
	assert.Equal(t, 1, listed(meta, "chain1", id1), "finished child 1 is not announced to its destination chain: %v", meta.TimeoutCounter)
	assert.Equal(t, 0, listed(meta, "chain2", id2))
	assert.Len(t, meta.TimeoutCounter, 2)
}
