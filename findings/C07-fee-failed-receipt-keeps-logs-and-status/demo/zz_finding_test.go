package executor

import (
	"encoding/json"
	"io/ioutil"
	"math/big"
	"path/filepath"
	"testing"
	"time"

	"github.com/ethereum/go-ethereum/common"
	ethtypes "github.com/ethereum/go-ethereum/core/types"
	"github.com/meshplus/bitxhub-core/agency"
	"github.com/meshplus/bitxhub-core/governance"
	servicemgr "github.com/meshplus/bitxhub-core/service-mgr"
	"github.com/meshplus/bitxhub-kit/crypto"
	"github.com/meshplus/bitxhub-kit/crypto/asym"
	"github.com/meshplus/bitxhub-kit/log"
	"github.com/meshplus/bitxhub-kit/storage/blockfile"
	"github.com/meshplus/bitxhub-kit/storage/leveldb"
	"github.com/meshplus/bitxhub-kit/types"
	"github.com/meshplus/bitxhub-model/constant"
	"github.com/meshplus/bitxhub-model/pb"
	"github.com/meshplus/bitxhub/internal/executor/contracts"
	"github.com/meshplus/bitxhub/internal/executor/oracle/appchain"
	"github.com/meshplus/bitxhub/internal/ledger"
	"github.com/meshplus/bitxhub/internal/model/events"
	"github.com/stretchr/testify/require"
)

// C07 / item 2: a BVM transaction that ran successfully (and emitted EVM logs through CrossInvokeEVM, or was
// answered "begin_failure" by the interchain contract) and then cannot pay its fee is reverted and gets a FAILED
// receipt.  The receipt must not keep what the undone run produced: EvmLogs / Bloom / TxStatus.

const (
	zzEscrowAddr = "0x3cd213723e81326c4783459f0cdf356833a4cf93"
	zzSwapAddr   = "0x00000000000000000000000000000000000c0de1"
	// data of the Escrows `Lock` event used by the repo's own asset_manager_test.go (receiptJson)
	zzLockTopic = "0x67741de31257ee580484c64e9f8b91449aa7df22ae38fcb86e50bdadfca0ad23"
	zzLockData  = "0x0000000000000000000000002862f68e270e7024776a6e10a4056d1f3eda67c60000000000000000000000008a413d6366c4a88caee1c4efe45a029dd87aebd20000000000000000000000002962b85e2bee2e1ea9c4cd69f2758cf7bbc3297e00000000000000000000000000000000000000000000000000000000000000c000000000000000000000000000000000000000000000021e19e0c9bab2400000000000000000000000000000000000000000000000000000000000000000000c000000000000000000000000000000000000000000000000000000000000002a30783239363262383565326245653265316541394334434436396632373538634637626263333239374500000000000000000000000000000000000000000000"
	// topic of the log the EVM leg emits
	zzEvmTopic = "0x00000000000000000000000000000000000000000000000000000000deadbeef"
)

// EVM runtime code standing in for the interchain-swap contract: whatever the call data, it emits
// LOG1(topic = zzEvmTopic, empty data) and stops.   PUSH32 topic, PUSH1 0, PUSH1 0, LOG1, STOP
func zzSwapCode() []byte {
	code := []byte{0x7f}
	code = append(code, common.HexToHash(zzEvmTopic).Bytes()...)
	code = append(code, 0x60, 0x00, 0x60, 0x00, 0xa1, 0x00)
	return code
}

// an Ethereum receipt holding the escrows contract's Lock event, as the pier hands it to EthHeaderManager.Mint
func zzLockReceipt(t *testing.T) []byte {
	rc := &ethtypes.Receipt{
		Status:            1,
		CumulativeGasUsed: 0x154444,
		TxHash:            common.HexToHash("0x5a5ba88ff023f5058921946f3708a3b9e6b5cd70b4f3e6cb348a48e8f02b3a7c"),
		GasUsed:           0x165cc,
		Logs: []*ethtypes.Log{{
			Address: common.HexToAddress(zzEscrowAddr),
			Topics:  []common.Hash{common.HexToHash(zzLockTopic)},
			Data:    common.FromHex(zzLockData),
		}},
	}
	data, err := rc.MarshalJSON()
	require.Nil(t, err)
	return data
}

func zzNewLedger(t *testing.T) *ledger.Ledger {
	repoRoot, err := ioutil.TempDir("", "executor")
	require.Nil(t, err)
	blockchainStorage, err := leveldb.New(filepath.Join(repoRoot, "storage"))
	require.Nil(t, err)
	ldb, err := leveldb.New(filepath.Join(repoRoot, "ledger"))
	require.Nil(t, err)
	accountCache, err := ledger.NewAccountCache()
	require.Nil(t, err)
	blockFile, err := blockfile.NewBlockFile(repoRoot, log.NewWithModule("executor_test"))
	require.Nil(t, err)
	ldg, err := ledger.New(createMockRepo(t), blockchainStorage, ldb, blockFile, accountCache, log.NewWithModule("ledger"))
	require.Nil(t, err)
	return ldg
}

func zzKey(t *testing.T) (crypto.PrivateKey, *types.Address) {
	k, err := asym.GenerateKeyPair(crypto.Secp256k1)
	require.Nil(t, err)
	a, err := k.PublicKey().Address()
	require.Nil(t, err)
	return k, a
}

// the repo's own test fixture for the empty genesis-like block 1
func zzCommitHistory(t *testing.T, ldg *ledger.Ledger) {
	account, journal := ldg.FlushDirtyData()
	require.Nil(t, ldg.Commit(1, account, journal))
	require.Nil(t, ldg.PersistExecutionResult(mockBlock(1, nil), nil, &pb.InterchainMeta{}))
}

func TestFinding_FeeFailedReceiptKeepsNoEvmLogs(t *testing.T) {
	price := big.NewInt(5000000)
	bvmFee := new(big.Int).Mul(big.NewInt(GasBVMTx), price)

	ldg := zzNewLedger(t)
	richKey, rich := zzKey(t)
	poorKey, poor := zzKey(t)

	// history (block 1): two piers, one well funded, one holding less than the fee of a BVM transaction;
	// both have their escrows contract recorded (what EthHeaderManager.SetEscrowAddr writes for a registered
	// pier); the interchain-swap EVM contract is deployed.
	ehm := constant.EthHeaderMgrContractAddr.Address()
	ldg.SetBalance(rich, new(big.Int).Mul(bvmFee, big.NewInt(100)))
	ldg.SetBalance(poor, new(big.Int).Sub(bvmFee, big.NewInt(1)))
	escrow, err := json.Marshal(contracts.ContractAddr{Addr: zzEscrowAddr})
	require.Nil(t, err)
	ldg.SetState(ehm, []byte(contracts.EscrowsAddrKey+rich.String()), escrow, nil)
	ldg.SetState(ehm, []byte(contracts.EscrowsAddrKey+poor.String()), escrow, nil)
	ldg.SetCode(types.NewAddressByStr(zzSwapAddr), zzSwapCode())
	ldg.SetState(constant.InterchainContractAddr.Address(), []byte(contracts.BitXHubID), []byte("1"), nil)
	zzCommitHistory(t, ldg)

	config := generateMockConfig(t)
	config.Appchain.Enable = true // [appchain] enable = true registers the ethereum header service (Mint needs no oracle)
	exec, err := New(ldg, log.NewWithModule("executor"), &appchain.Client{}, config, price)
	require.Nil(t, err)
	require.Nil(t, exec.Start())
	defer exec.Stop()

	blockCh := make(chan events.ExecutedEvent, 8)
	sub := exec.SubscribeBlockEvent(blockCh)
	defer sub.Unsubscribe()
	logsCh := make(chan []*pb.EvmLog, 8)
	lsub := exec.SubscribeLogsEvent(logsCh)
	defer lsub.Unsubscribe()

	run := func(height uint64, tx pb.Transaction) (*pb.Receipt, *pb.Block, []*pb.EvmLog) {
		exec.ExecuteBlock(mockCommitEvent(height, []pb.Transaction{tx}))
		var ev events.ExecutedEvent
		select {
		case ev = <-blockCh:
		case <-time.After(20 * time.Second):
			t.Fatalf("block %d not executed", height)
		}
		require.EqualValues(t, height, ev.Block.Height())
		var published []*pb.EvmLog
		select {
		case published = <-logsCh:
		case <-time.After(20 * time.Second):
			t.Fatalf("no logs event for block %d", height)
		}
		receipt, err := ldg.GetReceipt(tx.GetHash())
		require.Nil(t, err)
		return receipt, ev.Block, published
	}

	// block 2: the swap contract's address is configured through the real contract
	tx, err := genBVMContractTransaction(richKey, 0, ehm, "SetInterchainSwapAddr", pb.String(zzSwapAddr))
	require.Nil(t, err)
	receipt, _, _ := run(2, tx)
	require.Equal(t, pb.Receipt_SUCCESS, receipt.Status, string(receipt.Ret))

	// block 3: the poor pier mints.  Mint -> CrossInvokeEVM (EVM gas price of a bxh transaction is 0) -> LOG1;
	// the contract call succeeds, the BVM fee cannot be paid -> revert, FAILED
	lockReceipt := zzLockReceipt(t)
	tx, err = genBVMContractTransaction(poorKey, 0, ehm, "Mint", pb.Bytes(lockReceipt), pb.Bytes(nil))
	require.Nil(t, err)
	failed, block3, published3 := run(3, tx)
	swap := types.NewAddressByStr(zzSwapAddr)
	t.Logf("block 3: status=%s ret=%q receipt.EvmLogs=%d receipt bloom has swap addr=%v block bloom has swap addr=%v published logs=%d",
		failed.Status, failed.Ret, len(failed.EvmLogs), failed.Bloom != nil && failed.Bloom.Test(swap.Bytes()),
		block3.BlockHeader.Bloom != nil && block3.BlockHeader.Bloom.Test(swap.Bytes()), len(published3))
	require.Equal(t, pb.Receipt_FAILED, failed.Status)
	require.Contains(t, string(failed.Ret), "insufficient balance")
	// the run is undone in the state: Mint's record of the Ethereum transaction is not there
	ok, _ := ldg.GetState(ehm, []byte(contracts.EthTxKey(common.HexToHash("0x5a5ba88ff023f5058921946f3708a3b9e6b5cd70b4f3e6cb348a48e8f02b3a7c").String())))
	require.False(t, ok, "the reverted Mint left no record")
	require.Equal(t, "0", ldg.GetBalance(poor).String())

	// block 4 (control): the funded pier mints the same receipt: SUCCESS, one log - the EVM leg really logs
	tx, err = genBVMContractTransaction(richKey, 1, ehm, "Mint", pb.Bytes(lockReceipt), pb.Bytes(nil))
	require.Nil(t, err)
	okReceipt, block4, published4 := run(4, tx)
	require.Equal(t, pb.Receipt_SUCCESS, okReceipt.Status, string(okReceipt.Ret))
	require.Len(t, okReceipt.EvmLogs, 1)
	require.Equal(t, swap.String(), okReceipt.EvmLogs[0].Address.String())
	require.True(t, block4.BlockHeader.Bloom.Test(swap.Bytes()))
	require.Len(t, published4, 1)

	// the finding: nothing of the undone run may be left on the FAILED receipt, in the block bloom, or published
	require.Len(t, failed.EvmLogs, 0, "a FAILED (reverted) transaction's receipt carries the logs of the undone run")
	require.False(t, failed.Bloom != nil && failed.Bloom.Test(swap.Bytes()), "receipt bloom of the FAILED transaction contains the undone log")
	require.False(t, block3.BlockHeader.Bloom != nil && block3.BlockHeader.Bloom.Test(swap.Bytes()), "block bloom contains the undone log")
	require.Len(t, published3, 0, "the undone log was published to the log subscribers")
}

// The TxStatus half: an IBTP whose destination service does not exist is accepted with the answer
// "begin_failure" (TxStatus BEGIN_FAILURE on the receipt).  If the pier cannot pay the fee the transaction is
// reverted - the transaction record with BEGIN_FAILURE is gone - and the FAILED receipt must not claim that status.
func TestFinding_FeeFailedReceiptKeepsNoTxStatus(t *testing.T) {
	price := big.NewInt(5000000)
	bvmFee := new(big.Int).Mul(big.NewInt(GasBVMTx), price)

	ldg := zzNewLedger(t)
	pierKey, pier := zzKey(t)

	const bxh = "1356"
	srcService := "chain0:svc0"
	ldg.SetBalance(pier, new(big.Int).Sub(bvmFee, big.NewInt(1)))
	ldg.SetState(constant.InterchainContractAddr.Address(), []byte(contracts.BitXHubID), []byte(bxh), nil)
	// history: the source service is registered and available (the record ServiceManager keeps)
	svc := &servicemgr.Service{
		ChainID:   "chain0",
		ServiceID: "svc0",
		Name:      "svc0",
		Ordered:   true,
		Status:    governance.GovernanceAvailable,
	}
	svcData, err := json.Marshal(svc)
	require.Nil(t, err)
	ldg.SetState(constant.ServiceMgrContractAddr.Address(), []byte(servicemgr.ServiceKey(srcService)), svcData, nil)
	zzCommitHistory(t, ldg)

	config := generateMockConfig(t)
	exec, err := New(ldg, log.NewWithModule("executor"), &appchain.Client{}, config, price)
	require.Nil(t, err)
	require.Nil(t, exec.Start())
	defer exec.Stop()

	ibtp := &pb.IBTP{
		From:          bxh + ":" + srcService,
		To:            bxh + ":chain1:nosuchservice",
		Index:         1,
		Type:          pb.IBTP_INTERCHAIN,
		TimeoutHeight: 10,
		Payload:       []byte("payload"),
	}
	mk := func(key crypto.PrivateKey, from *types.Address) *pb.BxhTransaction {
		tx := &pb.BxhTransaction{
			From:      from,
			To:        constant.InterchainContractAddr.Address(),
			IBTP:      ibtp,
			Timestamp: time.Now().UnixNano(),
		}
		require.Nil(t, tx.Sign(key))
		tx.TransactionHash = tx.Hash()
		return tx
	}

	tx := mk(pierKey, pier)
	// the entry processExecuteEvent uses for the transactions of a block (serial executor -> applyTx -> applyTransaction)
	receipt := exec.txsExecutor.ApplyTransactions([]pb.Transaction{tx}, map[int]agency.InvalidReason{})[0]
	require.Len(t, exec.txsExecutor.GetInterchainCounter(), 0, "a FAILED transaction is announced to no appchain")
	txID := ibtp.ID()
	hasRecord, _ := ldg.GetState(constant.TransactionMgrContractAddr.Address(), []byte(contracts.TxInfoKey(txID)))
	t.Logf("status=%s ret=%q TxStatus=%s transaction record in the ledger=%v", receipt.Status, receipt.Ret, receipt.TxStatus, hasRecord)
	require.Equal(t, pb.Receipt_FAILED, receipt.Status)
	require.Contains(t, string(receipt.Ret), "insufficient balance")
	require.False(t, hasRecord, "the reverted transaction left no transaction record")
	_, fails := exec.filterValidTx([]pb.Transaction{tx}, []*pb.Receipt{receipt})
	require.NotEqual(t, pb.TransactionStatus_BEGIN_FAILURE, receipt.TxStatus,
		"the FAILED receipt claims the BEGIN_FAILURE status of the undone run")
	require.Len(t, fails, 0, "filterValidTx lists the FAILED transaction as a recorded begin-failure")

	// control: the same IBTP from a pier that can pay is SUCCESS / BEGIN_FAILURE and leaves its record
	richKey, rich := zzKey(t)
	ldg.SetBalance(rich, new(big.Int).Mul(bvmFee, big.NewInt(10)))
	tx = mk(richKey, rich)
	receipt = exec.txsExecutor.ApplyTransactions([]pb.Transaction{tx}, map[int]agency.InvalidReason{})[0]
	require.Equal(t, pb.Receipt_SUCCESS, receipt.Status, string(receipt.Ret))
	require.Equal(t, pb.TransactionStatus_BEGIN_FAILURE, receipt.TxStatus)
	hasRecord, _ = ldg.GetState(constant.TransactionMgrContractAddr.Address(), []byte(contracts.TxInfoKey(txID)))
	require.True(t, hasRecord)
}
