package executor_test

// Demo for triage item 4 (property C17): InterchainManager.Register is a contract-to-contract entry
// point (ServiceManager.Manage calls it when a service registration is approved); a direct call by an
// external account must fail and change nothing.
//
// Everything is real: leveldb-backed ledger, genesis.Initialize, BlockExecutor.ExecuteBlock with
// signed transactions, the real bolt contracts (AppchainManager, RoleManager, Governance, ...).

import (
	"encoding/json"
	"fmt"
	"io/ioutil"
	"math/big"
	"os"
	"path/filepath"
	"strings"
	"testing"
	"time"

	"github.com/meshplus/bitxhub-core/validator"
	"github.com/meshplus/bitxhub-kit/crypto"
	"github.com/meshplus/bitxhub-kit/crypto/asym"
	"github.com/meshplus/bitxhub-kit/log"
	"github.com/meshplus/bitxhub-kit/storage/blockfile"
	"github.com/meshplus/bitxhub-kit/storage/leveldb"
	"github.com/meshplus/bitxhub-kit/types"
	"github.com/meshplus/bitxhub-model/constant"
	"github.com/meshplus/bitxhub-model/pb"
	"github.com/meshplus/bitxhub/internal/executor"
	"github.com/meshplus/bitxhub/internal/executor/oracle/appchain"
	"github.com/meshplus/bitxhub/internal/ledger"
	"github.com/meshplus/bitxhub/internal/ledger/genesis"
	"github.com/meshplus/bitxhub/internal/model/events"
	"github.com/meshplus/bitxhub/internal/repo"
	"github.com/stretchr/testify/require"
)

type zzParty struct {
	key   crypto.PrivateKey
	addr  *types.Address
	nonce uint64
}

type zzEnv struct {
	t      *testing.T
	ldg    *ledger.Ledger
	exec   *executor.BlockExecutor
	ch     chan events.ExecutedEvent
	height uint64
}

func zzNewParty(t *testing.T) *zzParty {
	k, err := asym.GenerateKeyPair(crypto.Secp256k1)
	require.Nil(t, err)
	a, err := k.PublicKey().Address()
	require.Nil(t, err)
	return &zzParty{key: k, addr: a}
}

// zzNewEnv builds a relay-chain node state exactly the way internal/app does: real ledger,
// genesis.Initialize with the configured admins, then the transaction executor on top of it.
func zzNewEnv(t *testing.T, enableAudit bool, admins []*zzParty) *zzEnv {
	config, err := repo.DefaultConfig()
	require.Nil(t, err)
	config.Executor.EnableAudit = enableAudit
	for i, ad := range admins {
		weight := uint64(repo.NormalAdminWeight)
		if i == 0 {
			weight = repo.SuperAdminWeight
		}
		config.Genesis.Admins = append(config.Genesis.Admins, &repo.Admin{Address: ad.addr.String(), Weight: weight})
	}

	repoRoot, err := ioutil.TempDir("", "zz_finding")
	require.Nil(t, err)
	t.Cleanup(func() { _ = os.RemoveAll(repoRoot) })

	blockchainStorage, err := leveldb.New(filepath.Join(repoRoot, "storage"))
	require.Nil(t, err)
	ldb, err := leveldb.New(filepath.Join(repoRoot, "ledger"))
	require.Nil(t, err)
	accountCache, err := ledger.NewAccountCache()
	require.Nil(t, err)
	blockFile, err := blockfile.NewBlockFile(repoRoot, log.NewWithModule("zz_blockfile"))
	require.Nil(t, err)

	nodeKey, err := asym.GenerateKeyPair(crypto.Secp256k1)
	require.Nil(t, err)
	nodeAddr, err := nodeKey.PublicKey().Address()
	require.Nil(t, err)
	rep := &repo.Repo{Key: &repo.Key{PrivKey: nodeKey, Address: nodeAddr.String()}, Config: config}

	ldg, err := ledger.New(rep, blockchainStorage, ldb, blockFile, accountCache, log.NewWithModule("zz_ledger"))
	require.Nil(t, err)

	viewExec, err := executor.New(ldg, log.NewWithModule("zz_executor"), &appchain.Client{}, config, big.NewInt(0))
	require.Nil(t, err)
	require.EqualValues(t, 0, ldg.GetChainMeta().Height)
	require.Nil(t, genesis.Initialize(&config.Genesis, nil, 0, ldg, viewExec))
	require.EqualValues(t, 1, ldg.GetChainMeta().Height)

	exec, err := executor.New(ldg, log.NewWithModule("zz_executor"), &appchain.Client{}, config, big.NewInt(0))
	require.Nil(t, err)
	require.Nil(t, exec.Start())
	t.Cleanup(func() { _ = exec.Stop() })

	ch := make(chan events.ExecutedEvent, 16)
	sub := exec.SubscribeBlockEvent(ch)
	t.Cleanup(sub.Unsubscribe)

	return &zzEnv{t: t, ldg: ldg, exec: exec, ch: ch, height: 1}
}

func (p *zzParty) bvmTx(t *testing.T, to constant.BoltContractAddress, method string, args ...*pb.Arg) *pb.BxhTransaction {
	pl := &pb.InvokePayload{Method: method, Args: args}
	data, err := pl.Marshal()
	require.Nil(t, err)
	td := &pb.TransactionData{Type: pb.TransactionData_INVOKE, VmType: pb.TransactionData_BVM, Payload: data}
	pld, err := td.Marshal()
	require.Nil(t, err)
	tx := &pb.BxhTransaction{
		From:      p.addr,
		To:        to.Address(),
		Payload:   pld,
		Timestamp: time.Now().UnixNano(),
		Nonce:     p.nonce,
	}
	p.nonce++
	require.Nil(t, tx.Sign(p.key))
	tx.TransactionHash = tx.Hash()
	return tx
}

// run executes ONE transaction in its own block through BlockExecutor.ExecuteBlock and returns
// the persisted receipt.
func (e *zzEnv) run(tx *pb.BxhTransaction) *pb.Receipt {
	e.height++
	block := &pb.Block{
		BlockHeader:  &pb.BlockHeader{Number: e.height, Timestamp: time.Now().UnixNano()},
		Transactions: &pb.Transactions{Transactions: []pb.Transaction{tx}},
	}
	block.BlockHash = block.Hash()
	e.exec.ExecuteBlock(&pb.CommitEvent{Block: block})
	select {
	case ev := <-e.ch:
		require.EqualValues(e.t, e.height, ev.Block.Height())
	case <-time.After(60 * time.Second):
		e.t.Fatalf("block %d was not executed", e.height)
	}
	// receipts are written by the persist goroutine right after the block event
	var (
		receipt *pb.Receipt
		err     error
	)
	for i := 0; i < 600; i++ {
		if e.ldg.GetChainMeta().Height >= e.height {
			receipt, err = e.ldg.GetReceipt(tx.GetHash())
			if err == nil {
				return receipt
			}
		}
		time.Sleep(50 * time.Millisecond)
	}
	e.t.Fatalf("receipt of block %d not found: %v", e.height, err)
	return nil
}

func (e *zzEnv) ok(tx *pb.BxhTransaction, what string) *pb.Receipt {
	r := e.run(tx)
	require.True(e.t, r.IsSuccess(), "%s: %s", what, string(r.Ret))
	return r
}

func zzProposalID(t *testing.T, ret []byte) string {
	gr := struct {
		ProposalID string `json:"proposal_id"`
	}{}
	require.Nil(t, json.Unmarshal(ret, &gr), string(ret))
	require.NotEmpty(t, gr.ProposalID)
	return gr.ProposalID
}

func TestZZFinding_Item4_InterchainRegisterByExternalAccount(t *testing.T) {
	for _, audit := range []bool{false, true} {
		audit := audit
		t.Run(fmt.Sprintf("audit=%v", audit), func(t *testing.T) {
			admins := []*zzParty{zzNewParty(t), zzNewParty(t), zzNewParty(t), zzNewParty(t)}
			outsider := zzNewParty(t)
			chainAdmin := zzNewParty(t)
			env := zzNewEnv(t, audit, admins)

			allIDs := func() string {
				return string(env.ok(outsider.bvmTx(t, constant.InterchainContractAddr, "GetAllServiceIDs"), "GetAllServiceIDs").Ret)
			}
			before := allIDs()

			// 1. an account without any role calls the contract-to-contract entry point directly,
			//    for a service (and a chain) that nobody ever registered
			const ghost = "ghostchain:ghostservice"
			fullGhost := "1:" + ghost // genesis chain id (bitxhub id) is 1
			reg := env.run(outsider.bvmTx(t, constant.InterchainContractAddr, "Register", pb.String(ghost)))
			t.Logf("outsider -> Interchain.Register(%q): status=%s ret=%q", ghost, reg.Status, string(reg.Ret))

			get := env.run(outsider.bvmTx(t, constant.InterchainContractAddr, "GetInterchain", pb.String(fullGhost)))
			after := allIDs()
			t.Logf("GetInterchain(%q): status=%s", fullGhost, get.Status)
			t.Logf("GetAllServiceIDs before=%s after=%s", before, after)

			require.False(t, reg.IsSuccess(), "a direct call of Interchain.Register by an external account succeeded")
			require.False(t, get.IsSuccess(), "the direct call created an interchain record for a service that does not exist")
			require.NotContains(t, after, fullGhost)
			require.Equal(t, before, after, "the direct call changed the set of interchain records")

			// 2. the designated caller still works: appchain + service registration voted in,
			//    ServiceManager.Manage -> Interchain.Register creates the record
			vote := func(pid string) {
				for _, voter := range admins[:3] {
					env.ok(voter.bvmTx(t, constant.GovernanceContractAddr, "Vote", pb.String(pid), pb.String("approve"), pb.String("ok")), "vote")
				}
			}
			r := env.ok(chainAdmin.bvmTx(t, constant.AppchainMgrContractAddr, "RegisterAppchain",
				pb.String("zzchain"), pb.String("zz chain"), pb.Bytes(nil), pb.String("ETH"), pb.Bytes(nil),
				pb.String("0x857133c5C69e6Ce66F7AD46F200B9B3573e77582"), pb.String("desc"),
				pb.String(validator.HappyRuleAddr), pb.String("url"), pb.String(chainAdmin.addr.String()), pb.String("reason")), "RegisterAppchain")
			vote(zzProposalID(t, r.Ret))

			const svc = "0x30c5D3aeb4681af4D13384DBc2a717C51cb1cc11"
			r = env.ok(chainAdmin.bvmTx(t, constant.ServiceMgrContractAddr, "RegisterService",
				pb.String("zzchain"), pb.String(svc), pb.String("zz service"), pb.String("CallContract"), pb.String("intro"),
				pb.Uint64(1), pb.String(""), pb.String("details"), pb.String("reason")), "RegisterService")
			vote(zzProposalID(t, r.Ret))

			fullSvc := "1:zzchain:" + svc
			env.ok(outsider.bvmTx(t, constant.InterchainContractAddr, "GetInterchain", pb.String(fullSvc)), "GetInterchain of the approved service")
			final := allIDs()
			t.Logf("GetAllServiceIDs after the approved service registration=%s", final)
			require.True(t, strings.Contains(final, fullSvc))
			require.NotContains(t, final, fullGhost)
		})
	}
}
