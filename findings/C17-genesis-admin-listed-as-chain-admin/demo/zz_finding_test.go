package executor_test

// Demo for triage item 1 (property C17): an unprivileged RegisterAppchain must not be able to
// rewrite the role record of a governance admin.
//
// Everything is real: leveldb-backed ledger, genesis.Initialize, BlockExecutor.ExecuteBlock with
// signed transactions, the real bolt contracts (AppchainManager, RoleManager, Governance, ...).

import (
	"fmt"
	"io/ioutil"
	"math/big"
	"os"
	"path/filepath"
	"strings"
	"testing"
	"time"

	"github.com/meshplus/bitxhub-core/validator"
	"github.com/meshplus/bitxhub-kit/crypto"
	"github.com/meshplus/bitxhub-kit/crypto/asym"
	"github.com/meshplus/bitxhub-kit/log"
	"github.com/meshplus/bitxhub-kit/storage/blockfile"
	"github.com/meshplus/bitxhub-kit/storage/leveldb"
	"github.com/meshplus/bitxhub-kit/types"
	"github.com/meshplus/bitxhub-model/constant"
	"github.com/meshplus/bitxhub-model/pb"
	"github.com/meshplus/bitxhub/internal/executor"
	"github.com/meshplus/bitxhub/internal/executor/oracle/appchain"
	"github.com/meshplus/bitxhub/internal/ledger"
	"github.com/meshplus/bitxhub/internal/ledger/genesis"
	"github.com/meshplus/bitxhub/internal/model/events"
	"github.com/meshplus/bitxhub/internal/repo"
	"github.com/stretchr/testify/assert"
	"github.com/stretchr/testify/require"
)

type zzParty struct {
	key   crypto.PrivateKey
	addr  *types.Address
	nonce uint64
}

type zzEnv struct {
	t      *testing.T
	ldg    *ledger.Ledger
	exec   *executor.BlockExecutor
	ch     chan events.ExecutedEvent
	height uint64
}

func zzNewParty(t *testing.T) *zzParty {
	k, err := asym.GenerateKeyPair(crypto.Secp256k1)
	require.Nil(t, err)
	a, err := k.PublicKey().Address()
	require.Nil(t, err)
	return &zzParty{key: k, addr: a}
}

// zzNewEnv builds a relay-chain node state exactly the way internal/app does: real ledger,
// genesis.Initialize with the configured admins, then the transaction executor on top of it.
func zzNewEnv(t *testing.T, enableAudit bool, admins []*zzParty) *zzEnv {
	config, err := repo.DefaultConfig()
	require.Nil(t, err)
	config.Executor.EnableAudit = enableAudit
	for i, ad := range admins {
		weight := uint64(repo.NormalAdminWeight)
		if i == 0 {
			weight = repo.SuperAdminWeight
		}
		config.Genesis.Admins = append(config.Genesis.Admins, &repo.Admin{Address: ad.addr.String(), Weight: weight})
	}

	repoRoot, err := ioutil.TempDir("", "zz_finding")
	require.Nil(t, err)
	t.Cleanup(func() { _ = os.RemoveAll(repoRoot) })

	blockchainStorage, err := leveldb.New(filepath.Join(repoRoot, "storage"))
	require.Nil(t, err)
	ldb, err := leveldb.New(filepath.Join(repoRoot, "ledger"))
	require.Nil(t, err)
	accountCache, err := ledger.NewAccountCache()
	require.Nil(t, err)
	blockFile, err := blockfile.NewBlockFile(repoRoot, log.NewWithModule("zz_blockfile"))
	require.Nil(t, err)

	nodeKey, err := asym.GenerateKeyPair(crypto.Secp256k1)
	require.Nil(t, err)
	nodeAddr, err := nodeKey.PublicKey().Address()
	require.Nil(t, err)
	rep := &repo.Repo{Key: &repo.Key{PrivKey: nodeKey, Address: nodeAddr.String()}, Config: config}

	ldg, err := ledger.New(rep, blockchainStorage, ldb, blockFile, accountCache, log.NewWithModule("zz_ledger"))
	require.Nil(t, err)

	viewExec, err := executor.New(ldg, log.NewWithModule("zz_executor"), &appchain.Client{}, config, big.NewInt(0))
	require.Nil(t, err)
	require.EqualValues(t, 0, ldg.GetChainMeta().Height)
	require.Nil(t, genesis.Initialize(&config.Genesis, nil, 0, ldg, viewExec))
	require.EqualValues(t, 1, ldg.GetChainMeta().Height)

	exec, err := executor.New(ldg, log.NewWithModule("zz_executor"), &appchain.Client{}, config, big.NewInt(0))
	require.Nil(t, err)
	require.Nil(t, exec.Start())
	t.Cleanup(func() { _ = exec.Stop() })

	ch := make(chan events.ExecutedEvent, 16)
	sub := exec.SubscribeBlockEvent(ch)
	t.Cleanup(sub.Unsubscribe)

	return &zzEnv{t: t, ldg: ldg, exec: exec, ch: ch, height: 1}
}

func (p *zzParty) bvmTx(t *testing.T, to constant.BoltContractAddress, method string, args ...*pb.Arg) *pb.BxhTransaction {
	pl := &pb.InvokePayload{Method: method, Args: args}
	data, err := pl.Marshal()
	require.Nil(t, err)
	td := &pb.TransactionData{Type: pb.TransactionData_INVOKE, VmType: pb.TransactionData_BVM, Payload: data}
	pld, err := td.Marshal()
	require.Nil(t, err)
	tx := &pb.BxhTransaction{
		From:      p.addr,
		To:        to.Address(),
		Payload:   pld,
		Timestamp: time.Now().UnixNano(),
		Nonce:     p.nonce,
	}
	p.nonce++
	require.Nil(t, tx.Sign(p.key))
	tx.TransactionHash = tx.Hash()
	return tx
}

// run executes ONE transaction in its own block through BlockExecutor.ExecuteBlock and returns
// the persisted receipt.
func (e *zzEnv) run(tx *pb.BxhTransaction) *pb.Receipt {
	e.height++
	block := &pb.Block{
		BlockHeader:  &pb.BlockHeader{Number: e.height, Timestamp: time.Now().UnixNano()},
		Transactions: &pb.Transactions{Transactions: []pb.Transaction{tx}},
	}
	block.BlockHash = block.Hash()
	e.exec.ExecuteBlock(&pb.CommitEvent{Block: block})
	select {
	case ev := <-e.ch:
		require.EqualValues(e.t, e.height, ev.Block.Height())
	case <-time.After(60 * time.Second):
		e.t.Fatalf("block %d was not executed", e.height)
	}
	// receipts are written by the persist goroutine right after the block event
	var (
		receipt *pb.Receipt
		err     error
	)
	for i := 0; i < 600; i++ {
		if e.ldg.GetChainMeta().Height >= e.height {
			receipt, err = e.ldg.GetReceipt(tx.GetHash())
			if err == nil {
				return receipt
			}
		}
		time.Sleep(50 * time.Millisecond)
	}
	e.t.Fatalf("receipt of block %d not found: %v", e.height, err)
	return nil
}

func (e *zzEnv) roleQuery(asker *zzParty, method string, args ...*pb.Arg) string {
	r := e.run(asker.bvmTx(e.t, constant.RoleContractAddr, method, args...))
	require.True(e.t, r.IsSuccess(), "%s: %s", method, string(r.Ret))
	return string(r.Ret)
}

func TestZZFinding_Item1_RegisterAppchainStripsGovernanceAdmin(t *testing.T) {
	for _, audit := range []bool{false, true} {
		audit := audit
		t.Run(fmt.Sprintf("audit=%v", audit), func(t *testing.T) {
			admins := []*zzParty{zzNewParty(t), zzNewParty(t), zzNewParty(t), zzNewParty(t)}
			victim := admins[3]
			outsider := zzNewParty(t)
			env := zzNewEnv(t, audit, admins)

			isGov := func() string {
				return env.roleQuery(outsider, "IsAnyAvailableAdmin", pb.String(victim.addr.String()), pb.String("governanceAdmin"))
			}
			require.Equal(t, "true", isGov(), "genesis admin is an available governance admin")
			require.Equal(t, "governanceAdmin", env.roleQuery(outsider, "GetRoleByAddr", pb.String(victim.addr.String())))

			// 1. an account without any role registers a chain and names a governance admin as co-admin
			adminAddrs := outsider.addr.String() + "," + victim.addr.String()
			reg := env.run(outsider.bvmTx(t, constant.AppchainMgrContractAddr, "RegisterAppchain",
				pb.String("zzchain"), pb.String("zz chain"), pb.Bytes(nil), pb.String("ETH"), pb.Bytes(nil),
				pb.String("0x857133c5C69e6Ce66F7AD46F200B9B3573e77582"), pb.String("desc"),
				pb.String(validator.HappyRuleAddr), pb.String("url"), pb.String(adminAddrs), pb.String("reason")))
			t.Logf("RegisterAppchain(admins=outsider,governance admin): status=%s ret=%s", reg.Status, string(reg.Ret))

			if reg.IsSuccess() {
				// 2. the electorate approves what looks like an ordinary chain registration
				proposalID := outsider.addr.String() + "-0"
				require.True(t, strings.Contains(string(reg.Ret), proposalID), "proposal id in %s", string(reg.Ret))
				for _, voter := range admins[:3] {
					v := env.run(voter.bvmTx(t, constant.GovernanceContractAddr, "Vote",
						pb.String(proposalID), pb.String("approve"), pb.String("ok")))
					require.True(t, v.IsSuccess(), "vote: %s", string(v.Ret))
				}
				av := env.run(outsider.bvmTx(t, constant.AppchainMgrContractAddr, "IsAvailable", pb.String("zzchain")))
				require.True(t, av.IsSuccess(), string(av.Ret))
				t.Logf("appchain zzchain available: %s", string(av.Ret))
			}

			// 3. whatever happened to the registration, the governance admin must still be one
			after := isGov()
			role := env.roleQuery(outsider, "GetRoleByAddr", pb.String(victim.addr.String()))
			t.Logf("after: IsAnyAvailableAdmin(victim, governanceAdmin)=%s GetRoleByAddr(victim)=%s", after, role)
			assert.Equal(t, "true", after, "an unprivileged RegisterAppchain stripped a governance admin of his role")
			assert.Equal(t, "governanceAdmin", role)

			// and he can still vote / use admin entry points: submit a role proposal as governance admin
			fresh := zzNewParty(t)
			rr := env.run(victim.bvmTx(t, constant.RoleContractAddr, "RegisterRole",
				pb.String(fresh.addr.String()), pb.String("governanceAdmin"), pb.String(""), pb.String("reason")))
			t.Logf("victim -> RoleManager.RegisterRole (PermissionAdmin entry point): status=%s ret=%s", rr.Status, string(rr.Ret))
			assert.True(t, rr.IsSuccess(), "governance admin can no longer use a PermissionAdmin entry point: %s", string(rr.Ret))
		})
	}
}
