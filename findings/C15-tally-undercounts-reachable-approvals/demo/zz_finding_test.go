package executor_test

// C15 / item 1: the tally rejects a proposal although approval is still reachable.
//
// Real ledger (leveldb + block file), real genesis, real BlockExecutor, real contracts
// through BoltVM; every call below is a signed transaction in a block of its own.

import (
	"encoding/json"
	"fmt"
	"math/big"
	"path/filepath"
	"testing"
	"time"

	"github.com/meshplus/bitxhub-core/governance"
	"github.com/meshplus/bitxhub-kit/crypto"
	"github.com/meshplus/bitxhub-kit/crypto/asym/ecdsa"
	"github.com/meshplus/bitxhub-kit/log"
	"github.com/meshplus/bitxhub-kit/storage/blockfile"
	"github.com/meshplus/bitxhub-kit/storage/leveldb"
	"github.com/meshplus/bitxhub-model/constant"
	"github.com/meshplus/bitxhub-model/pb"
	"github.com/meshplus/bitxhub/internal/executor"
	"github.com/meshplus/bitxhub/internal/executor/contracts"
	"github.com/meshplus/bitxhub/internal/executor/oracle/appchain"
	"github.com/meshplus/bitxhub/internal/ledger"
	"github.com/meshplus/bitxhub/internal/ledger/genesis"
	"github.com/meshplus/bitxhub/internal/model/events"
	"github.com/meshplus/bitxhub/internal/repo"
	"github.com/stretchr/testify/require"
)

type findingAdmin struct {
	name string
	key  crypto.PrivateKey
	addr string
}

type findingChain struct {
	t      *testing.T
	ldg    *ledger.Ledger
	exec   *executor.BlockExecutor
	ch     chan events.ExecutedEvent
	height uint64
	clock  int64
	nonce  map[string]uint64
}

// a fixed key per name: the run does not depend on random addresses
func findingKey(t *testing.T, name string, seed byte) *findingAdmin {
	raw := make([]byte, 32)
	for i := range raw {
		raw[i] = seed
	}
	key, err := ecdsa.UnmarshalPrivateKey(raw, crypto.Secp256k1)
	require.Nil(t, err)
	addr, err := key.PublicKey().Address()
	require.Nil(t, err)
	return &findingAdmin{name: name, key: key, addr: addr.String()}
}

// S is the super administrator (weight 2), A, B and C are ordinary administrators (weight 1)
func newFindingChain(t *testing.T, admins ...*findingAdmin) *findingChain {
	root := t.TempDir()
	config, err := repo.DefaultConfig()
	require.Nil(t, err)
	for i, a := range admins {
		weight := uint64(repo.NormalAdminWeight)
		if i == 0 {
			weight = repo.SuperAdminWeight
		}
		config.Genesis.Admins = append(config.Genesis.Admins, &repo.Admin{Address: a.addr, Weight: weight})
	}

	blockchainStorage, err := leveldb.New(filepath.Join(root, "storage"))
	require.Nil(t, err)
	ldb, err := leveldb.New(filepath.Join(root, "ledger"))
	require.Nil(t, err)
	accountCache, err := ledger.NewAccountCache()
	require.Nil(t, err)
	blockFile, err := blockfile.NewBlockFile(root, log.NewWithModule("blockfile"))
	require.Nil(t, err)
	rep := &repo.Repo{Key: &repo.Key{PrivKey: admins[0].key, Address: admins[0].addr}, Config: config}
	ldg, err := ledger.New(rep, blockchainStorage, ldb, blockFile, accountCache, log.NewWithModule("ledger"))
	require.Nil(t, err)

	viewExec, err := executor.New(ldg, log.NewWithModule("executor"), &appchain.Client{}, config, big.NewInt(0))
	require.Nil(t, err)
	require.Nil(t, genesis.Initialize(&config.Genesis, nil, 0, ldg, viewExec))

	exec, err := executor.New(ldg, log.NewWithModule("executor"), &appchain.Client{}, config, big.NewInt(1))
	require.Nil(t, err)
	require.Nil(t, exec.Start())
	t.Cleanup(func() { _ = exec.Stop() })

	c := &findingChain{t: t, ldg: ldg, exec: exec, ch: make(chan events.ExecutedEvent, 16),
		height: ldg.GetChainMeta().Height, clock: 1700000000000000000, nonce: map[string]uint64{}}
	sub := exec.SubscribeBlockEvent(c.ch)
	t.Cleanup(sub.Unsubscribe)
	return c
}

// one signed BVM transaction, executed and persisted as the only transaction of the next block
func (c *findingChain) invoke(from *findingAdmin, to constant.BoltContractAddress, method string, args ...*pb.Arg) *pb.Receipt {
	payload, err := (&pb.InvokePayload{Method: method, Args: args}).Marshal()
	require.Nil(c.t, err)
	data, err := (&pb.TransactionData{Type: pb.TransactionData_INVOKE, VmType: pb.TransactionData_BVM, Payload: payload}).Marshal()
	require.Nil(c.t, err)
	c.clock++
	tx := &pb.BxhTransaction{From: nil, To: to.Address(), Payload: data, Timestamp: c.clock, Nonce: c.nonce[from.addr]}
	c.nonce[from.addr]++
	fromAddr, err := from.key.PublicKey().Address()
	require.Nil(c.t, err)
	tx.From = fromAddr
	require.Nil(c.t, tx.Sign(from.key))
	tx.TransactionHash = tx.Hash()

	c.height++
	block := &pb.Block{
		BlockHeader:  &pb.BlockHeader{Number: c.height, Timestamp: c.clock},
		Transactions: &pb.Transactions{Transactions: []pb.Transaction{tx}},
	}
	block.BlockHash = block.Hash()
	c.exec.ExecuteBlock(&pb.CommitEvent{Block: block, LocalList: []bool{false}})
	select {
	case ev := <-c.ch:
		require.EqualValues(c.t, c.height, ev.Block.Height())
	case <-time.After(30 * time.Second):
		c.t.Fatalf("block %d (%s) was not executed", c.height, method)
	}
	receipt, err := c.ldg.GetReceipt(tx.TransactionHash)
	require.Nil(c.t, err)
	return receipt
}

func (c *findingChain) mustInvoke(from *findingAdmin, to constant.BoltContractAddress, method string, args ...*pb.Arg) []byte {
	r := c.invoke(from, to, method, args...)
	require.Equal(c.t, pb.Receipt_SUCCESS, r.Status, "%s by %s: %s", method, from.name, string(r.Ret))
	return r.Ret
}

func (c *findingChain) proposalID(ret []byte) string {
	gr := &governance.GovernanceResult{}
	require.Nil(c.t, json.Unmarshal(ret, gr))
	require.NotEmpty(c.t, gr.ProposalID)
	return gr.ProposalID
}

func (c *findingChain) proposal(by *findingAdmin, id string) *contracts.Proposal {
	p := &contracts.Proposal{}
	require.Nil(c.t, json.Unmarshal(c.mustInvoke(by, constant.GovernanceContractAddr, "GetProposal", pb.String(id)), p))
	return p
}

func (c *findingChain) vote(by *findingAdmin, id, ballot string) {
	c.mustInvoke(by, constant.GovernanceContractAddr, "Vote", pb.String(id), pb.String(ballot), pb.String("r"))
}

func (c *findingChain) role(by *findingAdmin, id string) *contracts.Role {
	r := &contracts.Role{}
	require.Nil(c.t, json.Unmarshal(c.mustInvoke(by, constant.RoleContractAddr, "GetRoleInfoById", pb.String(id)), r))
	return r
}

// FreezeRole(target) proposed by `by` and approved by the three voters (one of them the super administrator)
func (c *findingChain) freeze(target, by *findingAdmin, voters ...*findingAdmin) {
	id := c.proposalID(c.mustInvoke(by, constant.RoleContractAddr, "FreezeRole", pb.String(target.addr), pb.String("freeze "+target.name)))
	for _, v := range voters {
		c.vote(v, id, contracts.BallotApprove)
	}
	fp := c.proposal(by, id)
	require.Equal(c.t, contracts.APPROVED, fp.Status, "freeze proposal of %s", target.name)
	require.Equal(c.t, governance.GovernanceFrozen, c.role(by, target.addr).Status)
}

func describe(p *contracts.Proposal) string {
	return fmt.Sprintf("status=%s end_reason=%q approve=%d against=%d initial=%d available=%d super_voted=%v",
		p.Status, p.EndReason, p.ApproveNum, p.AgainstNum, p.InitialElectorateNum, p.AvailableElectorateNum, p.IsSuperAdminVoted)
}

// a plain (not special) proposal: registration of a consensus node, default strategy a > 0.5 * t
func (c *findingChain) registerNode(by *findingAdmin, node *findingAdmin) string {
	ret := c.mustInvoke(by, constant.NodeManagerContractAddr, "RegisterNode",
		pb.String(node.addr), pb.String("vpNode"), pb.String("QmFindingNode"+node.name), pb.Uint64(1),
		pb.String(""), pb.String(""), pb.String("register node"))
	return c.proposalID(ret)
}

// B rejects, then B is frozen. S, A and C are available and have not voted: three approvals
// (3 > 0.5 * 4) are still reachable, the proposal must stay open and pass with their votes.
func TestFindingC15Item1_RejecterFrozen(t *testing.T) {
	S, A, B, C := findingKey(t, "S", 1), findingKey(t, "A", 2), findingKey(t, "B", 3), findingKey(t, "C", 4)
	node := findingKey(t, "N", 9)
	c := newFindingChain(t, S, A, B, C)

	pid := c.registerNode(A, node)
	p := c.proposal(A, pid)
	require.False(t, p.IsSpecial)
	require.EqualValues(t, 4, p.InitialElectorateNum)
	require.Equal(t, "a > 0.5 * t", p.StrategyExpression)

	c.vote(B, pid, contracts.BallotReject)
	t.Logf("after B's reject:   %s", describe(c.proposal(A, pid)))
	require.Equal(t, contracts.PROPOSED, c.proposal(A, pid).Status)

	c.freeze(B, A, A, C, S)
	p = c.proposal(A, pid)
	t.Logf("after B is frozen:  %s", describe(p))
	require.EqualValues(t, 3, p.AvailableElectorateNum)
	require.Equal(t, contracts.PROPOSED, p.Status,
		"S, A and C are available and have not voted - approval (3 of 4) is still reachable, yet the tally ended the proposal: %s", describe(p))

	c.vote(A, pid, contracts.BallotApprove)
	c.vote(C, pid, contracts.BallotApprove)
	require.Equal(t, contracts.PROPOSED, c.proposal(A, pid).Status)
	c.vote(S, pid, contracts.BallotApprove)
	p = c.proposal(A, pid)
	t.Logf("after S, A, C vote: %s", describe(p))
	require.Equal(t, contracts.APPROVED, p.Status)
	require.EqualValues(t, 3, p.ApproveNum)
}

// A and B approve, then A and B are frozen. Their approvals still count (a = 2) and one more
// approval by S or C passes the proposal, so it must stay open.
func TestFindingC15Item1_ApproversFrozen(t *testing.T) {
	S, A, B, C := findingKey(t, "S", 1), findingKey(t, "A", 2), findingKey(t, "B", 3), findingKey(t, "C", 4)
	node := findingKey(t, "N", 9)
	c := newFindingChain(t, S, A, B, C)

	pid := c.registerNode(A, node)
	c.vote(A, pid, contracts.BallotApprove)
	c.vote(B, pid, contracts.BallotApprove)
	require.Equal(t, contracts.PROPOSED, c.proposal(S, pid).Status)

	c.freeze(A, C, B, C, S) // electorate S,A,B,C
	t.Logf("after A is frozen:  %s", describe(c.proposal(S, pid)))
	require.Equal(t, contracts.PROPOSED, c.proposal(S, pid).Status)
	c.freeze(B, C, C, S) // electorate S,B,C: two approvals pass
	p := c.proposal(S, pid)
	t.Logf("after B is frozen:  %s", describe(p))
	require.EqualValues(t, 2, p.AvailableElectorateNum)
	require.EqualValues(t, 2, p.ApproveNum)
	require.Equal(t, contracts.PROPOSED, p.Status,
		"two approvals are counted and S and C can still vote - approval is reachable, yet the tally ended the proposal: %s", describe(p))

	c.vote(S, pid, contracts.BallotApprove)
	p = c.proposal(S, pid)
	t.Logf("after S votes:      %s", describe(p))
	require.Equal(t, contracts.APPROVED, p.Status)
}

// the other direction must keep working: when approval really is unreachable the electorate change rejects.
func TestFindingC15Item1_StillRejectsWhenUnreachable(t *testing.T) {
	S, A, B, C := findingKey(t, "S", 1), findingKey(t, "A", 2), findingKey(t, "B", 3), findingKey(t, "C", 4)
	node := findingKey(t, "N", 9)
	c := newFindingChain(t, S, A, B, C)

	pid := c.registerNode(A, node)
	c.vote(B, pid, contracts.BallotReject) // r=1: A, C, S could still pass it
	c.freeze(C, A, A, B, S)                // C never voted and cannot any more: at most A and S -> 2 approvals
	p := c.proposal(S, pid)
	t.Logf("after C is frozen:  %s", describe(p))
	require.Equal(t, contracts.REJECTED, p.Status)
	require.Equal(t, contracts.ElectorateReason, p.EndReason)
}
