package contracts

import (
	"encoding/json"
	"fmt"
	"sort"
	"strconv"
	"strings"
	"testing"

	"github.com/meshplus/bitxhub-core/boltvm"
	"github.com/meshplus/bitxhub-core/governance"
	service_mgr "github.com/meshplus/bitxhub-core/service-mgr"
	"github.com/meshplus/bitxhub-core/validator"
	"github.com/meshplus/bitxhub-kit/log"
	"github.com/meshplus/bitxhub-kit/types"
	"github.com/meshplus/bitxhub-model/constant"
	"github.com/meshplus/bitxhub-model/pb"
	"github.com/sirupsen/logrus"
	"github.com/stretchr/testify/require"
)

// findWorld is a tiny in-memory world state shared by the interchain contract and
// the transaction manager contract; the contracts themselves are the real ones.
type findWorld struct {
	state  map[string]map[string][]byte // contract address -> key -> value
	height uint64
	txIdx  uint64
	logger logrus.FieldLogger
}

type findStub struct {
	w             *findWorld
	self          string
	currentCaller string
}

var _ boltvm.Stub = (*findStub)(nil)

func (s *findStub) kv() map[string][]byte {
	m, ok := s.w.state[s.self]
	if !ok {
		m = make(map[string][]byte)
		s.w.state[s.self] = m
	}
	return m
}

func (s *findStub) Caller() string             { return "0xc7F999b83Af6DF9e67d0a37Ee7e900bF38b3D013" }
func (s *findStub) Callee() string             { return s.self }
func (s *findStub) CurrentCaller() string      { return s.currentCaller }
func (s *findStub) Logger() logrus.FieldLogger { return s.w.logger }
func (s *findStub) GetTxHash() *types.Hash {
	return types.NewHashByStr("0x9f41dd84524bf8a42f8ab58ecfca6e1752d6fd93fe8dc00af4c71963c97db59f")
}
func (s *findStub) GetTxTimeStamp() int64    { return 1 }
func (s *findStub) GetTxIndex() uint64       { return s.w.txIdx }
func (s *findStub) GetCurrentHeight() uint64 { return s.w.height }
func (s *findStub) Has(key string) bool      { _, ok := s.kv()[key]; return ok }
func (s *findStub) Get(key string) (bool, []byte) {
	v, ok := s.kv()[key]
	return ok, v
}
func (s *findStub) GetObject(key string, ret interface{}) bool {
	v, ok := s.kv()[key]
	if !ok {
		return false
	}
	return json.Unmarshal(v, ret) == nil
}
func (s *findStub) Set(key string, value []byte) { s.kv()[key] = value }
func (s *findStub) SetObject(key string, value interface{}) {
	data, err := json.Marshal(value)
	if err != nil {
		panic(err)
	}
	s.kv()[key] = data
}
func (s *findStub) Add(key string, value []byte)            { s.Set(key, value) }
func (s *findStub) AddObject(key string, value interface{}) { s.SetObject(key, value) }
func (s *findStub) Delete(key string)                       { delete(s.kv(), key) }
func (s *findStub) Query(prefix string) (bool, [][]byte) {
	var keys []string
	for k := range s.kv() {
		if strings.HasPrefix(k, prefix) {
			keys = append(keys, k)
		}
	}
	sort.Strings(keys)
	var ret [][]byte
	for _, k := range keys {
		ret = append(ret, s.kv()[k])
	}
	return len(ret) != 0, ret
}
func (s *findStub) PostEvent(pb.Event_EventType, interface{}) {}
func (s *findStub) PostInterchainEvent(interface{})           {}
func (s *findStub) ValidationEngine() validator.Engine        { return nil }
func (s *findStub) CrossInvokeEVM(string, []byte) *boltvm.Response {
	return boltvm.Success(nil)
}
func (s *findStub) GetAccount(string) interface{} { return nil }
func (s *findStub) EnableAudit() bool             { return false }

func findU64(a *pb.Arg) uint64 {
	v, err := strconv.ParseUint(string(a.Value), 10, 64)
	if err != nil {
		panic(err)
	}
	return v
}

func (s *findStub) CrossInvoke(address, method string, args ...*pb.Arg) *boltvm.Response {
	switch address {
	case constant.TransactionMgrContractAddr.Address().String():
		tm := &TransactionManager{Stub: &findStub{w: s.w, self: address, currentCaller: s.self}}
		switch method {
		case "BeginMultiTXs":
			return tm.BeginMultiTXs(string(args[0].Value), string(args[1].Value), findU64(args[2]), string(args[3].Value) == "true", findU64(args[4]))
		case "Begin":
			return tm.Begin(string(args[0].Value), findU64(args[1]), string(args[2].Value) == "true")
		case "Report":
			r, err := strconv.ParseInt(string(args[1].Value), 10, 32)
			if err != nil {
				panic(err)
			}
			return tm.Report(string(args[0].Value), int32(r))
		case "GetStatus":
			return tm.GetStatus(string(args[0].Value))
		}
		return boltvm.Error(boltvm.OtherInternalErrCode, "unknown method "+method)
	default:
		// service manager bookkeeping (RecordInvokeService) etc.
		return boltvm.Success(nil)
	}
}

const (
	findBxh = "1356"
	findSrc = "1356:chainA:svc"
	findToB = "1356:chainB:svc"
	findToC = "1356:chainC:svc"
	findToD = "1356:chainD:svc"
)

func findSetup(t *testing.T) (*findWorld, *InterchainManager) {
	w := &findWorld{
		state:  make(map[string]map[string][]byte),
		height: 10,
		logger: log.NewWithModule("seed"),
	}
	icAddr := constant.InterchainContractAddr.Address().String()
	im := &InterchainManager{Stub: &findStub{w: w, self: icAddr, currentCaller: "0xc7F999b83Af6DF9e67d0a37Ee7e900bF38b3D013"}}
	im.InitServiceCache()
	im.Set(BitXHubID, []byte(findBxh))

	for _, full := range []string{findSrc, findToB, findToC, findToD} {
		_, chainID, serviceID, err := pb.ParseFullServiceID(full)
		require.Nil(t, err)
		status := governance.GovernanceAvailable
		chainServiceID := fmt.Sprintf("%s:%s", chainID, serviceID)
		im.ServiceCache.Store(chainServiceID, &service_mgr.Service{
			ChainID:    chainID,
			ServiceID:  serviceID,
			Ordered:    true,
			Permission: map[string]struct{}{},
			Status:     status,
		})
		require.True(t, im.Register(chainServiceID).Ok)
	}
	return w, im
}

func findGroup() *pb.StringUint64Map {
	return &pb.StringUint64Map{
		Keys: []string{findToB, findToC, findToD},
		Vals: []uint64{1, 1, 1},
	}
}

func findHandle(t *testing.T, w *findWorld, im *InterchainManager, height uint64, to string, typ pb.IBTP_Type) *boltvm.Response {
	w.height = height
	w.txIdx = 0
	ibtp := &pb.IBTP{
		From:          findSrc,
		To:            to,
		Index:         1,
		Type:          typ,
		TimeoutHeight: 50,
		Group:         findGroup(),
	}
	res := im.HandleIBTP(ibtp)
	require.True(t, res.Ok, string(res.Result))
	return res
}

func findStatus(t *testing.T, im *InterchainManager, id string) pb.TransactionStatus {
	res := im.CrossInvoke(constant.TransactionMgrContractAddr.Address().String(), "GetStatus", pb.String(id))
	require.True(t, res.Ok, string(res.Result))
	v, err := strconv.Atoi(string(res.Result))
	require.Nil(t, err)
	return pb.TransactionStatus(v)
}

// Finding C05 (receipt failure): a one-to-many transaction A -> {B, C, D}; all three children begin in block 10,
// the child on chain B reports SUCCESS in block 11, then the child on chain C reports FAILURE in block 12.
// The group fails as a whole (every child leaves SUCCESS/BEGIN), the source chain is told to roll back - and
// chain B, which holds an already-succeeded child, must be told to roll that child back in the same block.
// On the pinned tree TransactionManager.Report overwrites every child status with BEGIN_FAILURE
// (changeMultiTxStatus) before it looks for the children that had succeeded, so NotifyDstIBTPIDs is always
// empty on this path and chain B is never told.
func TestFindingC05_ReceiptFailureNotifiesSucceededDestinations(t *testing.T) {
	w, im := findSetup(t)

	idB := fmt.Sprintf("%s-%s-1", findSrc, findToB)
	idC := fmt.Sprintf("%s-%s-1", findSrc, findToC)
	idD := fmt.Sprintf("%s-%s-1", findSrc, findToD)

	findHandle(t, w, im, 10, findToB, pb.IBTP_INTERCHAIN)
	findHandle(t, w, im, 10, findToC, pb.IBTP_INTERCHAIN)
	findHandle(t, w, im, 10, findToD, pb.IBTP_INTERCHAIN)
	findHandle(t, w, im, 11, findToB, pb.IBTP_RECEIPT_SUCCESS)
	require.False(t, im.Has(MultiTxNotifyKey(11)))

	findHandle(t, w, im, 12, findToC, pb.IBTP_RECEIPT_FAILURE)

	// status half: nobody stays SUCCESS / BEGIN
	for _, id := range []string{idB, idC, idD} {
		st := findStatus(t, im, id)
		require.NotEqual(t, pb.TransactionStatus_SUCCESS, st, id)
		require.NotEqual(t, pb.TransactionStatus_BEGIN, st, id)
	}

	notify := make(map[string][]string)
	require.True(t, im.GetObject(MultiTxNotifyKey(12), &notify), "no multi-tx notification in the block of the failure")
	for _, l := range notify {
		sort.Strings(l)
	}
	t.Logf("multitx-12 = %v", notify)
	require.Equal(t, []string{idB, idD}, notify["chainA"], "source chain must be told to roll back the other children")
	require.Equal(t, []string{idB}, notify["chainB"], "chain B holds an already-succeeded child and must be told to roll it back")
}
