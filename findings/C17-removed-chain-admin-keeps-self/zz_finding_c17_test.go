package contracts

import (
	"encoding/json"
	"sort"
	"strings"
	"testing"

	"github.com/meshplus/bitxhub-core/boltvm"
	"github.com/meshplus/bitxhub-core/governance"
	appchainMgr "github.com/meshplus/bitxhub-core/appchain-mgr"
	ruleMgr "github.com/meshplus/bitxhub-core/rule-mgr"
	"github.com/meshplus/bitxhub-core/validator"
	"github.com/meshplus/bitxhub-kit/log"
	"github.com/meshplus/bitxhub-kit/types"
	"github.com/meshplus/bitxhub-model/constant"
	"github.com/meshplus/bitxhub-model/pb"
	"github.com/sirupsen/logrus"
	"github.com/stretchr/testify/require"
)

// admWorld is a tiny in-memory world state shared by the interchain contract and
// the transaction manager contract; the contracts themselves are the real ones.
type admWorld struct {
	state  map[string]map[string][]byte // contract address -> key -> value
	height uint64
	txIdx  uint64
	logger logrus.FieldLogger
}

type admStub struct {
	w             *admWorld
	self          string
	currentCaller string
}

var _ boltvm.Stub = (*admStub)(nil)

func (s *admStub) kv() map[string][]byte {
	m, ok := s.w.state[s.self]
	if !ok {
		m = make(map[string][]byte)
		s.w.state[s.self] = m
	}
	return m
}

func (s *admStub) Caller() string             { return "0xc7F999b83Af6DF9e67d0a37Ee7e900bF38b3D013" }
func (s *admStub) Callee() string             { return s.self }
func (s *admStub) CurrentCaller() string      { return s.currentCaller }
func (s *admStub) Logger() logrus.FieldLogger { return s.w.logger }
func (s *admStub) GetTxHash() *types.Hash {
	return types.NewHashByStr("0x9f41dd84524bf8a42f8ab58ecfca6e1752d6fd93fe8dc00af4c71963c97db59f")
}
func (s *admStub) GetTxTimeStamp() int64    { return 1 }
func (s *admStub) GetTxIndex() uint64       { return s.w.txIdx }
func (s *admStub) GetCurrentHeight() uint64 { return s.w.height }
func (s *admStub) Has(key string) bool      { _, ok := s.kv()[key]; return ok }
func (s *admStub) Get(key string) (bool, []byte) {
	v, ok := s.kv()[key]
	return ok, v
}
func (s *admStub) GetObject(key string, ret interface{}) bool {
	v, ok := s.kv()[key]
	if !ok {
		return false
	}
	return json.Unmarshal(v, ret) == nil
}
func (s *admStub) Set(key string, value []byte) { s.kv()[key] = value }
func (s *admStub) SetObject(key string, value interface{}) {
	data, err := json.Marshal(value)
	if err != nil {
		panic(err)
	}
	s.kv()[key] = data
}
func (s *admStub) Add(key string, value []byte)            { s.Set(key, value) }
func (s *admStub) AddObject(key string, value interface{}) { s.SetObject(key, value) }
func (s *admStub) Delete(key string)                       { delete(s.kv(), key) }
func (s *admStub) Query(prefix string) (bool, [][]byte) {
	var keys []string
	for k := range s.kv() {
		if strings.HasPrefix(k, prefix) {
			keys = append(keys, k)
		}
	}
	sort.Strings(keys)
	var ret [][]byte
	for _, k := range keys {
		ret = append(ret, s.kv()[k])
	}
	return len(ret) != 0, ret
}
func (s *admStub) PostEvent(pb.Event_EventType, interface{}) {}
func (s *admStub) PostInterchainEvent(interface{})           {}
func (s *admStub) ValidationEngine() validator.Engine        { return nil }
func (s *admStub) CrossInvokeEVM(string, []byte) *boltvm.Response {
	return boltvm.Success(nil)
}
func (s *admStub) GetAccount(string) interface{} { return nil }
func (s *admStub) EnableAudit() bool             { return false }


// every other contract answers "ok": the finding is about the bookkeeping of the appchain manager itself
func (s *admStub) CrossInvoke(address, method string, args ...*pb.Arg) *boltvm.Response {
	if method == "SubmitProposal" {
		return boltvm.Success([]byte("proposal-1"))
	}
	return boltvm.Success(nil)
}

const (
	admChain = "chainX"
	admOld   = "0x1000000000000000000000000000000000000001"
	admNew   = "0x2000000000000000000000000000000000000002"
)

// Finding C17: the admin list of an appchain is replaced by an approved update proposal (old admin -> new
// admin). "Operations reserved to a chain's own admin fail for everyone else": afterwards the removed admin is
// everyone else. On the pinned tree recordChainAdmins only adds the admin -> chain entries of the new list and
// never deletes those of the removed admins, so the removed admin still passes the chain-admin (PermissionSelf)
// check of the appchain manager and can, e.g., log the appchain out.
func TestFindingC17_RemovedChainAdminLosesSelfPermission(t *testing.T) {
	w := &admWorld{state: make(map[string]map[string][]byte), height: 10, logger: log.NewWithModule("finding")}
	self := constant.AppchainMgrContractAddr.Address().String()
	gov := constant.GovernanceContractAddr.Address().String()
	am := &AppchainManager{Stub: &admStub{w: w, self: self, currentCaller: gov}}
	am.AppchainManager.Persister = am.Stub

	// 1. the registration of chainX with admin admOld is approved
	reg, err := json.Marshal(&RegisterAppchainInfo{
		ChainInfo:  &appchainMgr.Appchain{ID: admChain, ChainName: "x", ChainType: "Fabric V1.4.3", TrustRoot: []byte("r"), Broker: []byte("b"), Desc: "d", Version: 0, Status: governance.GovernanceAvailable},
		MasterRule: &ruleMgr.Rule{Address: "0x00000000000000000000000000000000000000a2", RuleUrl: "u"},
		AdminAddrs: admOld,
	})
	require.Nil(t, err)
	res := am.Manage(string(governance.EventRegister), string(APPROVED), string(governance.GovernanceUnavailable), admChain, reg)
	require.True(t, res.Ok, string(res.Result))
	require.Nil(t, am.checkPermission([]string{string(PermissionSelf)}, admChain, admOld, nil), "the registered admin governs its chain")

	// 2. an update that replaces the admin list is submitted (status updating) and approved
	ok, data := am.AppchainManager.ChangeStatus(admChain, string(governance.EventUpdate), string(governance.GovernanceAvailable), nil)
	require.True(t, ok, string(data))
	upd, err := json.Marshal(&UpdateAppchainInfo{
		Name:       UpdateInfo{OldInfo: "x", NewInfo: "x", IsEdit: false},
		Desc:       UpdateInfo{OldInfo: "d", NewInfo: "d", IsEdit: false},
		TrustRoot:  UpdateInfo{OldInfo: "r", NewInfo: "r", IsEdit: false},
		AdminAddrs: UpdateInfo{OldInfo: admOld, NewInfo: admNew, IsEdit: true},
	})
	require.Nil(t, err)
	res = am.Manage(string(governance.EventUpdate), string(APPROVED), string(governance.GovernanceAvailable), admChain, upd)
	require.True(t, res.Ok, string(res.Result))
	require.Nil(t, am.checkPermission([]string{string(PermissionSelf)}, admChain, admNew, nil), "the new admin governs the chain")
	require.Equal(t, []string{admNew}, am.getAdminAddrByChainId(admChain))

	// 3. the removed admin is now an outsider
	require.NotNil(t, am.checkPermission([]string{string(PermissionSelf)}, admChain, admOld, nil),
		"the removed admin still passes the chain-admin permission check")
	am.Stub.(*admStub).currentCaller = admOld
	res = am.LogoutAppchain(admChain, "bye")
	require.False(t, res.Ok, "the removed admin logged the appchain out")
	require.True(t, strings.Contains(string(res.Result), "permission"), string(res.Result))
}
