package etcdraft

import (
	"context"
	"fmt"
	"io/ioutil"
	"os"
	"path/filepath"
	"testing"
	"time"

	"github.com/coreos/etcd/raft/raftpb"
	"github.com/golang/mock/gomock"
	"github.com/libp2p/go-libp2p-core/peer"
	"github.com/meshplus/bitxhub-core/order"
	"github.com/meshplus/bitxhub-kit/types"
	"github.com/meshplus/bitxhub-model/pb"
	"github.com/meshplus/bitxhub/internal/repo"
	raftproto "github.com/meshplus/bitxhub/pkg/order/etcdraft/proto"
	"github.com/meshplus/bitxhub/pkg/peermgr/mock_peermgr"
	"github.com/sirupsen/logrus"
)

// Property C20: "crash/restart of any replica at any point: replayed log entries of already-executed
// blocks are skipped and no entry that was not executed is skipped".
//
// All three tests drive the real Node built by NewNode (the constructor registered for order type
// "raft"), started with Start(), fed through Prepare()/Step() and observed at Commit(), i.e. exactly the
// interface internal/app uses. Only the network is the generated mock peer manager.

const zzOrderToml = `
[timed_gen_block]
enable = false
block_timeout = "2s"

[raft]
batch_timeout               = "0.3s"
tick_timeout                = "0.1s"
election_tick               = 10
heartbeat_tick              = 1
max_size_per_msg            = 1048576
max_inflight_msgs           = 500
check_quorum                = true
pre_vote                    = true
disable_proposal_forwarding = true

    [raft.mempool]
        batch_size          = 1
        pool_size           = 50000
        tx_slice_size       = 10
        tx_slice_timeout    = "0.1s"

    [raft.syncer]
        sync_blocks = 5
        snapshot_count = 4
`

func zzLogger() *logrus.Logger {
	l := logrus.New()
	if os.Getenv("ZZLOG") == "" { // ZZLOG=1 shows the node's log
		l.SetOutput(ioutil.Discard)
	}
	return l
}

func zzRepo(t *testing.T) string {
	repoRoot, err := ioutil.TempDir("", "zzfinding")
	if err != nil {
		t.Fatal(err)
	}
	if err := ioutil.WriteFile(filepath.Join(repoRoot, "order.toml"), []byte(zzOrderToml), 0644); err != nil {
		t.Fatal(err)
	}
	return repoRoot
}

// zzNewNode is what internal/app/bitxhub.go does: order.WithApplied(ledger height),
// order.WithGetChainMetaFunc(ledger.GetChainMeta), storage path <repo>/storage/order.
func zzNewNode(t *testing.T, repoRoot string, id uint64, ids []uint64, pm *mock_peermgr.MockPeerManager, ledgerHeight uint64) *Node {
	nodes := make(map[uint64]*pb.VpInfo)
	for _, i := range ids {
		nodes[i] = &pb.VpInfo{Id: i, Account: types.NewAddressByStr(fmt.Sprintf("%040x", i)).String()}
	}
	o, err := NewNode(
		order.WithRepoRoot(repoRoot),
		order.WithID(id),
		order.WithNodes(nodes),
		order.WithPeerManager(pm),
		order.WithStoragePath(repo.GetStoragePath(repoRoot, "order")),
		order.WithLogger(zzLogger()),
		order.WithApplied(ledgerHeight),
		order.WithGetChainMetaFunc(func() *pb.ChainMeta {
			return &pb.ChainMeta{Height: ledgerHeight, BlockHash: types.NewHash([]byte(fmt.Sprintf("%032d", ledgerHeight)))}
		}),
		order.WithGetAccountNonceFunc(func(address *types.Address) uint64 { return 0 }),
	)
	if err != nil {
		t.Fatal(err)
	}
	return o.(*Node)
}

// zzCrash = the process dies: the raft loop stops, the files are released; whatever is on disk stays.
func zzCrash(n *Node) {
	n.Stop()
	time.Sleep(500 * time.Millisecond)
	_ = n.raftStorage.Close()
	_ = n.storage.Close()
}

func zzSoloPeerMgr(t *testing.T) *mock_peermgr.MockPeerManager {
	pm := mock_peermgr.NewMockPeerManager(gomock.NewController(t))
	pm.EXPECT().OrderPeers().Return(map[uint64]*pb.VpInfo{}).AnyTimes()
	pm.EXPECT().OtherPeers().Return(map[uint64]*peer.AddrInfo{}).AnyTimes()
	pm.EXPECT().Broadcast(gomock.Any()).Return(nil).AnyTimes()
	pm.EXPECT().CountConnectedPeers().Return(uint64(0)).AnyTimes()
	pm.EXPECT().AsyncSend(gomock.Any(), gomock.Any()).Return(nil).AnyTimes()
	return pm
}

func zzBlockHash(h uint64) *types.Hash { return types.NewHash([]byte(fmt.Sprintf("%032d", h))) }

// Item 1. Production sequence (cluster size 1, the same on every replica of a larger cluster):
//
//	client txs -> Prepare -> batch -> raft entry -> publishEntries -> mint -> commitC (buffer 1024)
//	-> feedhub reads Commit() and hands the block to the executor, which persists it LATER and only then
//	calls ReportState(height).
//	maybeTriggerSnapshot runs at the end of the Ready iteration that minted the block and writes a
//	snapshot (index = appliedIndex, data = lastExec = "handed to commitC").
//	The process is killed while the executor has persisted up to L < snapshot height.
//	Restart: internal/app passes WithApplied(L); CreateStorage opens the WAL at the snapshot.
//
// Required by C20: the blocks L+1.. that were ordered before the crash are delivered again, in order, with
// the same content. Observed: they are never delivered (their entries are at or below the snapshot index,
// later entries have Height != lastExec+1 and are dropped).
func TestZZFindingLocalSnapshotAheadOfExecutor(t *testing.T) {
	repoRoot := zzRepo(t)
	defer os.RemoveAll(repoRoot)

	const genesis = uint64(1)
	const blocks = 8            // heights 2..9
	const persisted = uint64(5) // the executor persisted (and reported) 2..5 when the process died

	// `restart` is a package-level flag that earlier tests of this package leave set; a production process
	// that finds no WAL starts with it unset (CreateStorage sets it when a WAL exists, as in the restart below)
	restart.Store(false)
	n := zzNewNode(t, repoRoot, 1, []uint64{1}, zzSoloPeerMgr(t), genesis)
	if err := n.Start(); err != nil {
		t.Fatal(err)
	}
	for n.Ready() != nil {
		time.Sleep(100 * time.Millisecond)
	}

	ordered := map[uint64]string{} // height -> hash of the (single) transaction of the block
	for i := 0; i < blocks; i++ {
		tx := generateTx()
		if err := n.Prepare(tx); err != nil {
			t.Fatal(err)
		}
		var ev *pb.CommitEvent
		select {
		case ev = <-n.Commit(): // feedhub: block goes to the executor pipeline
		case <-time.After(10 * time.Second):
			t.Fatalf("no block for transaction %d", i)
		}
		h := ev.Block.Height()
		if h != genesis+1+uint64(i) || len(ev.Block.Transactions.Transactions) != 1 {
			t.Fatalf("set-up: block %d with %d txs, want height %d", h, len(ev.Block.Transactions.Transactions), genesis+1+uint64(i))
		}
		ordered[h] = ev.Block.Transactions.Transactions[0].GetHash().String()
		if h <= persisted {
			// executor persisted the block -> feedhub: Order.ReportState
			n.ReportState(h, zzBlockHash(h), []*types.Hash{tx.GetHash()})
		}
		// h > persisted: the block is inside the executor (or still in commitC) when the process dies
	}
	time.Sleep(500 * time.Millisecond) // let the Ready iteration of the last block finish (snapshot)
	zzCrash(n)

	snapHeight, snapIndex := uint64(0), uint64(0)
	if s, err := n.raftStorage.snap.Load(); err == nil {
		cm := &pb.ChainMeta{}
		_ = cm.Unmarshal(s.Data)
		snapHeight, snapIndex = cm.Height, s.Metadata.Index
	}
	t.Logf("at the crash: ledger height %d, handed to the executor up to %d, newest raft snapshot on disk: index %d, height %d",
		persisted, genesis+blocks, snapIndex, snapHeight)

	// restart of the same replica on the same storage; the ledger is at `persisted`
	n2 := zzNewNode(t, repoRoot, 1, []uint64{1}, zzSoloPeerMgr(t), persisted)
	if err := n2.Start(); err != nil {
		t.Fatal(err)
	}
	defer zzCrash(n2)

	var got []uint64
	deadline := time.After(6 * time.Second)
collect:
	for uint64(len(got)) < genesis+blocks-persisted {
		select {
		case ev := <-n2.Commit():
			if ev == nil {
				continue
			}
			h := ev.Block.Height()
			got = append(got, h)
			if want := persisted + uint64(len(got)); h != want {
				t.Fatalf("after restart block %d delivered, want %d (delivered so far %v)", h, want, got)
			}
			if txs := ev.Block.Transactions.Transactions; len(txs) != 1 || txs[0].GetHash().String() != ordered[h] {
				t.Fatalf("after restart block %d does not carry the batch that was ordered for this height before the crash", h)
			}
		case <-deadline:
			break collect
		}
	}
	want := []uint64{}
	for h := persisted + 1; h <= genesis+blocks; h++ {
		want = append(want, h)
	}
	if fmt.Sprint(got) != fmt.Sprint(want) {
		t.Fatalf("ledger at %d, blocks up to %d were ordered (committed raft entries) before the crash; after the restart "+
			"the ordering service delivered %v, want %v. Local snapshot on disk: index %d height %d (> ledger height): "+
			"the entries of the missing heights are never replayed",
			persisted, genesis+blocks, got, want, snapIndex, snapHeight)
	}
}

// zzFollower builds replica 3 of a 3-replica cluster; replicas 1 and 2 exist only as the mock network.
// served: heights the peers can serve with GET_BLOCKS.
func zzClusterPeerMgr(t *testing.T, maxHeight uint64, fetched *[]uint64) *mock_peermgr.MockPeerManager {
	pm := mock_peermgr.NewMockPeerManager(gomock.NewController(t))
	pm.EXPECT().OrderPeers().Return(map[uint64]*pb.VpInfo{}).AnyTimes()
	pm.EXPECT().OtherPeers().Return(map[uint64]*peer.AddrInfo{1: {}, 2: {}}).AnyTimes()
	pm.EXPECT().Broadcast(gomock.Any()).Return(nil).AnyTimes()
	pm.EXPECT().CountConnectedPeers().Return(uint64(2)).AnyTimes()
	pm.EXPECT().AsyncSend(gomock.Any(), gomock.Any()).Return(nil).AnyTimes()
	pm.EXPECT().Send(gomock.Any(), gomock.Any()).DoAndReturn(func(id interface{}, m *pb.Message) (*pb.Message, error) {
		if m.Type != pb.Message_GET_BLOCKS {
			return nil, fmt.Errorf("unexpected message %s", m.Type)
		}
		req := &pb.GetBlocksRequest{}
		if err := req.Unmarshal(m.Data); err != nil {
			return nil, err
		}
		res := &pb.GetBlocksResponse{}
		for h := req.Start; h <= req.End; h++ {
			if h > maxHeight {
				return nil, fmt.Errorf("block %d does not exist", h)
			}
			*fetched = append(*fetched, h)
			res.Blocks = append(res.Blocks, &pb.Block{
				BlockHeader:  &pb.BlockHeader{Number: h},
				BlockHash:    zzBlockHash(h),
				Transactions: &pb.Transactions{Transactions: []pb.Transaction{constructTx(h)}},
			})
		}
		data, err := res.Marshal()
		if err != nil {
			return nil, err
		}
		return &pb.Message{Type: pb.Message_GET_BLOCKS_ACK, Data: data}, nil
	}).AnyTimes()
	return pm
}

func zzRaftMsg(t *testing.T, m raftpb.Message) []byte {
	data, err := m.Marshal()
	if err != nil {
		t.Fatal(err)
	}
	out, err := (&raftproto.RaftMessage{Type: raftproto.RaftMessage_CONSENSUS, Data: data}).Marshal()
	if err != nil {
		t.Fatal(err)
	}
	return out
}

func zzStep(t *testing.T, n *Node, m raftpb.Message, what string) {
	done := make(chan struct{})
	go func() { _ = n.Step(zzRaftMsg(t, m)); close(done) }()
	select {
	case <-done:
	case <-time.After(5 * time.Second):
		t.Fatalf("%s: Step() blocks, the raft loop of the replica does not run any more", what)
	}
}

func zzBatchEntry(t *testing.T, index, term, height uint64) raftpb.Entry {
	data, err := (&raftproto.RequestBatch{
		Height:    height,
		Timestamp: time.Now().UnixNano(),
		TxList:    &pb.Transactions{Transactions: []pb.Transaction{constructTx(height)}},
	}).Marshal()
	if err != nil {
		t.Fatal(err)
	}
	return raftpb.Entry{Type: raftpb.EntryNormal, Index: index, Term: term, Data: data}
}

// Item 2. Production sequence: replica 3 has an intact ledger (height 7) but no raft log (order storage
// lost / replaced, or the replica missed >= snapshot_count entries none of which produced a block). The
// leader has compacted its log and sends MsgSnap; its newest snapshot is (index 40, height 5), i.e. not
// above the follower's chain. listenRaftMsg: Ready with a snapshot -> Store -> recoverFromSnapshot.
// Then the leader replicates entries 41..43 (heights 6, 7, 8).
//
// Required: 6 and 7 are skipped (already executed), 8 is delivered. Observed: recoverFromSnapshot never
// returns (SyncCFTBlocks(8, 5) fails without the nil sentinel, nobody closes the channel), the raft loop is
// dead: nothing is ever delivered again and Step() blocks.
func TestZZFindingSnapshotNotAboveChainHangs(t *testing.T) {
	for _, tc := range []struct {
		name               string
		ledger, snapHeight uint64
	}{
		{"chain above snapshot height", 7, 5},
		{"chain at snapshot height", 7, 7},
	} {
		t.Run(tc.name, func(t *testing.T) {
			repoRoot := zzRepo(t)
			defer os.RemoveAll(repoRoot)
			restart.Store(false) // no WAL on disk: a production process starts with the flag unset

			var fetched []uint64
			n := zzNewNode(t, repoRoot, 3, []uint64{1, 2, 3}, zzClusterPeerMgr(t, 100, &fetched), tc.ledger)
			if err := n.Start(); err != nil {
				t.Fatal(err)
			}
			defer func() { n.cancel() }()

			data, _ := (&pb.ChainMeta{Height: tc.snapHeight}).Marshal()
			zzStep(t, n, raftpb.Message{Type: raftpb.MsgSnap, From: 1, To: 3, Term: 2, Snapshot: raftpb.Snapshot{
				Data:     data,
				Metadata: raftpb.SnapshotMetadata{Index: 40, Term: 2, ConfState: raftpb.ConfState{Nodes: []uint64{1, 2, 3}}},
			}}, "snapshot")

			var ents []raftpb.Entry
			next := tc.ledger + 1
			for h, idx := tc.snapHeight+1, uint64(41); h <= next; h, idx = h+1, idx+1 {
				ents = append(ents, zzBatchEntry(t, idx, 2, h))
			}
			last := ents[len(ents)-1].Index
			zzStep(t, n, raftpb.Message{Type: raftpb.MsgApp, From: 1, To: 3, Term: 2, LogTerm: 2, Index: 40,
				Entries: ents, Commit: last}, "append after the snapshot")

			select {
			case ev := <-n.Commit():
				if ev.Block.Height() != next {
					t.Fatalf("block %d delivered after the snapshot, want %d", ev.Block.Height(), next)
				}
			case <-time.After(5 * time.Second):
				t.Fatalf("ledger at %d, snapshot (index 40, height %d) received, entries up to height %d committed: "+
					"block %d is never delivered", tc.ledger, tc.snapHeight, next, next)
			}
			if len(fetched) != 0 {
				t.Fatalf("blocks %v fetched from peers although the chain is not behind the snapshot", fetched)
			}
		})
	}
}

// Item 1, second window (snapshot received from the leader). listenRaftMsg stores the received snapshot
// on disk BEFORE the blocks up to its height are fetched and executed. Replica 3 (ledger 4) receives the
// snapshot (index 40, height 7), hands 5, 6, 7 to the executor and is killed when the executor has
// persisted only 5. Restart with WithApplied(5): the newest snapshot on disk says height 7.
//
// Required: 6, 7 are delivered (state update from the peers, the log below index 40 does not exist
// locally), then 8 from the log. Observed: nothing is delivered, 8 is dropped as "expects 6".
func TestZZFindingReceivedSnapshotAheadOfExecutor(t *testing.T) {
	repoRoot := zzRepo(t)
	defer os.RemoveAll(repoRoot)
	restart.Store(false)

	var fetched []uint64
	n := zzNewNode(t, repoRoot, 3, []uint64{1, 2, 3}, zzClusterPeerMgr(t, 7, &fetched), 4)
	if err := n.Start(); err != nil {
		t.Fatal(err)
	}
	data, _ := (&pb.ChainMeta{Height: 7}).Marshal()
	zzStep(t, n, raftpb.Message{Type: raftpb.MsgSnap, From: 1, To: 3, Term: 2, Snapshot: raftpb.Snapshot{
		Data:     data,
		Metadata: raftpb.SnapshotMetadata{Index: 40, Term: 2, ConfState: raftpb.ConfState{Nodes: []uint64{1, 2, 3}}},
	}}, "snapshot")
	for _, want := range []uint64{5, 6, 7} {
		select {
		case ev := <-n.Commit():
			if ev.Block.Height() != want {
				t.Fatalf("set-up: state update delivered %d, want %d", ev.Block.Height(), want)
			}
		case <-time.After(5 * time.Second):
			t.Fatalf("set-up: state update does not deliver block %d", want)
		}
	}
	n.ReportState(5, zzBlockHash(5), nil) // executor persisted 5; 6 and 7 are in its pipeline
	zzCrash(n)

	fetched = nil
	n2 := zzNewNode(t, repoRoot, 3, []uint64{1, 2, 3}, zzClusterPeerMgr(t, 7, &fetched), 5)
	ctx, cancel := context.WithTimeout(context.Background(), 10*time.Second)
	defer cancel()
	go func() {
		if err := n2.Start(); err != nil {
			t.Error(err)
			return
		}
		// the leader goes on after the snapshot: entry 41 = height 8
		m := raftpb.Message{Type: raftpb.MsgApp, From: 1, To: 3, Term: 2, LogTerm: 2, Index: 40,
			Entries: []raftpb.Entry{zzBatchEntry(t, 41, 2, 8)}, Commit: 41}
		select {
		case n2.msgC <- zzRaftMsg(t, m):
		case <-ctx.Done():
		}
	}()
	defer func() {
		if n2.cancel != nil {
			n2.cancel()
		}
	}()

	var got []uint64
	for len(got) < 3 {
		select {
		case ev := <-n2.Commit():
			got = append(got, ev.Block.Height())
			continue
		case <-time.After(6 * time.Second):
		}
		break
	}
	if fmt.Sprint(got) != "[6 7 8]" {
		t.Fatalf("ledger at 5, newest snapshot on disk (index 40, height 7), entry 41 (height 8) committed: "+
			"delivered after the restart %v, want [6 7 8]", got)
	}
}
